import SqlgrepModel.Lemmas.PrintJson
/- Record level: JSON records are read back to the row; CSV / text records split into their fields. -/
namespace Sqlgrep.Print

/-! ### JSON records -/

/-- what is assumed of the ryu oracle: a finite REAL is rendered as a (non-empty) number token -/
def OracleOk (o : RealOracle) : Prop := ∀ b, isFinite b = true → (Json.num (o.json b)).ok = true

theorem natDigits_numChars (n : Nat) : (natDigits n).all isNumChar = true := by
  rw [List.all_eq_true]
  intro c hc
  have := natDigits_digits n c hc
  simp [isNumChar]; omega

theorem renderInt_ok (i : Int) : (Json.num (renderInt i)).ok = true := by
  have hne := natDigits_ne_nil i.natAbs
  have hall := natDigits_numChars i.natAbs
  unfold renderInt
  split
  · simp only [Json.ok, List.isEmpty_cons, Bool.not_false, List.all_cons, Bool.true_and, hall, Bool.and_true]
    decide
  · cases h : natDigits i.natAbs with
    | nil => exact absurd h hne
    | cons c t => rw [h] at hall; simp only [Json.ok, List.isEmpty_cons, Bool.not_false, Bool.true_and, hall]

mutual
theorem jsonValue_ok (o : RealOracle) (ho : OracleOk o) : ∀ v : Value, (jsonValue o v).ok = true
  | .null => rfl
  | .int i => renderInt_ok i
  | .real b => by
    simp only [jsonValue]
    split
    · rename_i h; exact ho b h
    · rfl
  | .bool _ => rfl
  | .text _ => rfl
  | .array _ xs => by simp only [jsonValue, Json.ok]; exact jsonValues_ok o ho xs
  | .timestamp _ _ _ => rfl
  | .interval _ => rfl
theorem jsonValues_ok (o : RealOracle) (ho : OracleOk o) : ∀ xs : List Value, Json.okAll (jsonValues o xs) = true
  | [] => rfl
  | x :: xs => by simp only [jsonValues, Json.okAll, jsonValue_ok o ho x, jsonValues_ok o ho xs, Bool.and_self]
end

theorem loneInput_json (cols : List Bytes) (row : List Value) : loneInput .json cols row = false := by
  simp [loneInput]

theorem loneInput_csv (d : Bytes) (cols : List Bytes) (row : List Value) : loneInput (.csv d) cols row = false := by
  simp [loneInput]

/-- the members of the record of one row -/
def jsonMembers (o : RealOracle) (cols : List Bytes) (row : List Value) : List (Bytes × Json) :=
  (cols.zip row).map fun nv => (nv.1, jsonValue o nv.2)

theorem jsonMembers_keys (o : RealOracle) (cols : List Bytes) (row : List Value)
    (h : cols.length ≤ row.length) : (jsonMembers o cols row).map Prod.fst = cols := by
  simp only [jsonMembers, List.map_map]
  have : (Prod.fst ∘ fun (nv : Bytes × Value) => (nv.1, jsonValue o nv.2)) = Prod.fst := by
    funext nv; rfl
  rw [this]
  exact List.map_fst_zip h

theorem jsonMembers_ok (o : RealOracle) (ho : OracleOk o) (cols : List Bytes) (row : List Value) :
    membersOk (jsonMembers o cols row) := by
  intro kv hkv
  simp only [jsonMembers, List.mem_map] at hkv
  obtain ⟨nv, _, rfl⟩ := hkv
  exact jsonValue_ok o ho nv.2

/-- a JSON record, read by `readObject`, yields the column names in order, each with the cell document of its cell -/
theorem readObject_record (o : RealOracle) (ho : OracleOk o) (cols : List Bytes) (row : List Value)
    (hd : cols.Nodup) (hl : cols.length ≤ row.length) :
    readObject (renderRecord o .json cols row) = some (jsonMembers o cols row) := by
  have hk := jsonMembers_keys o cols row hl
  have hm : mapFromList (jsonMembers o cols row) = jsonMembers o cols row :=
    mapFromList_nodup _ (by rw [hk]; exact hd)
  have : renderRecord o .json cols row = renderObject (jsonMembers o cols row) := by
    simp only [renderRecord, loneInput_json, Bool.false_eq_true, if_false]
    rw [← hm]; rfl
  rw [this]
  exact readObject_renderObject _ (jsonMembers_ok o ho cols row)

/-! ### from cell documents back to values -/

mutual
/-- no REAL anywhere in the value (REAL fidelity belongs to the ryu oracle) -/
def noReal : Value → Bool
  | .real _ => false
  | .array _ xs => noRealAll xs
  | _ => true
def noRealAll : List Value → Bool
  | [] => true
  | x :: xs => noReal x && noRealAll xs
end

mutual
/-- the value a reader of the JSON output can know: arrays lose their static element type (set to
`int` here), timestamps and intervals are their text form -/
def jsonMeaning : Value → Value
  | .array _ xs => .array .int (jsonMeanings xs)
  | .timestamp d s f => .text (renderTimestamp d s f)
  | .interval n => .text (renderInterval n)
  | v => v
def jsonMeanings : List Value → List Value
  | [] => []
  | x :: xs => jsonMeaning x :: jsonMeanings xs
end

mutual
/-- interpret a cell document: numbers as INT (decimal integer tokens only) -/
def decodeCell : Json → Option Value
  | .null => some .null
  | .bool b => some (.bool b)
  | .num t =>
    match parseInt t with
    | some i => some (.int i)
    | none => none
  | .str s => some (.text s)
  | .arr xs =>
    match decodeCells xs with
    | some vs => some (.array .int vs)
    | none => none
def decodeCells : List Json → Option (List Value)
  | [] => some []
  | x :: xs =>
    match decodeCell x, decodeCells xs with
    | some v, some vs => some (v :: vs)
    | _, _ => none
end

mutual
theorem decodeCell_jsonValue (o : RealOracle) : ∀ v : Value, noReal v = true →
    decodeCell (jsonValue o v) = some (jsonMeaning v)
  | .null, _ => rfl
  | .int i, _ => by simp only [jsonValue, decodeCell, parseInt_renderInt, jsonMeaning]
  | .real _, h => by simp [noReal] at h
  | .bool _, _ => rfl
  | .text _, _ => rfl
  | .array _ xs, h => by
    simp only [noReal] at h
    simp only [jsonValue, decodeCell, decodeCells_jsonValues o xs h, jsonMeaning]
  | .timestamp _ _ _, _ => rfl
  | .interval _, _ => rfl
theorem decodeCells_jsonValues (o : RealOracle) : ∀ xs : List Value, noRealAll xs = true →
    decodeCells (jsonValues o xs) = some (jsonMeanings xs)
  | [], _ => rfl
  | x :: xs, h => by
    simp only [noRealAll, Bool.and_eq_true] at h
    simp only [jsonValues, decodeCells, decodeCell_jsonValue o x h.1, decodeCells_jsonValues o xs h.2,
      jsonMeanings]
end

/-! ### CSV / text: splitting on a one-byte delimiter -/

def splitOn (d : Nat) : Bytes → List Bytes
  | [] => [[]]
  | c :: rest =>
    if c = d then [] :: splitOn d rest
    else
      match splitOn d rest with
      | f :: fs => (c :: f) :: fs
      | [] => [[c]]

theorem splitOn_free (d : Nat) (a : Bytes) (h : d ∉ a) : splitOn d a = [a] := by
  induction a with
  | nil => rfl
  | cons c a ih =>
    simp only [List.mem_cons, not_or] at h
    have hc : c ≠ d := fun e => h.1 e.symm
    simp [splitOn, hc, ih h.2]

theorem splitOn_append (d : Nat) (a rest : Bytes) (h : d ∉ a) :
    splitOn d (a ++ d :: rest) = a :: splitOn d rest := by
  induction a with
  | nil => simp [splitOn]
  | cons c a ih =>
    simp only [List.mem_cons, not_or] at h
    have hc : c ≠ d := fun e => h.1 e.symm
    simp [splitOn, hc, ih h.2]

theorem splitOn_joinWith (d : Nat) (cells : List Bytes) (hne : cells ≠ []) (h : ∀ c ∈ cells, d ∉ c) :
    splitOn d (joinWith [d] cells) = cells := by
  induction cells with
  | nil => exact absurd rfl hne
  | cons x rest ih =>
    cases rest with
    | nil => simp only [joinWith]; exact splitOn_free d x (h x (by simp))
    | cons y ys =>
      simp only [joinWith, List.append_assoc, List.cons_append, List.nil_append]
      rw [splitOn_append d x _ (h x (by simp))]
      rw [ih (by simp) (fun c hc => h c (by simp [hc]))]

theorem zip_map_snd_take {α : Type} (cols : List Bytes) (row : List Value) (f : Value → α)
    (h : cols.length ≤ row.length) :
    (cols.zip row).map (fun nv => f nv.2) = (row.take cols.length).map f := by
  induction cols generalizing row with
  | nil => simp
  | cons c cs ih =>
    cases row with
    | nil => simp at h
    | cons v vs =>
      simp only [List.length_cons, Nat.add_le_add_iff_right] at h
      simp [ih vs h]

/-- CSV with a one-byte delimiter that occurs in no rendered cell: splitting the record at the
delimiter gives back exactly the rendered cells, one per column -/
theorem splitOn_csv_record (o : RealOracle) (d : Nat) (cols : List Bytes) (row : List Value)
    (hne : cols ≠ []) (hl : cols.length ≤ row.length)
    (hfree : ∀ v ∈ row, d ∉ displayValue o v) :
    splitOn d (renderRecord o (.csv [d]) cols row) = (row.take cols.length).map (displayValue o) := by
  simp only [renderRecord, loneInput_csv, Bool.false_eq_true, if_false]
  rw [zip_map_snd_take cols row (displayValue o) hl]
  apply splitOn_joinWith
  · cases cols with
    | nil => exact absurd rfl hne
    | cons c cs =>
      cases row with
      | nil => simp at hl
      | cons v vs => simp
  · intro c hc
    simp only [List.mem_map] at hc
    obtain ⟨v, hv, rfl⟩ := hc
    exact hfree v (List.mem_of_mem_take hv)

end Sqlgrep.Print
