import SqlgrepModel.Model.PipelineFollow
import SqlgrepModel.Lemmas.PipelineLines
import SqlgrepModel.Lemmas.ExecFT
import SqlgrepModel.Lemmas.ExecFTBatch
import SqlgrepModel.Props.C10
/-
Glue lemmas of the end-to-end model of follow mode (`Model/PipelineFollow.lean` `followText`): the reduction of
statements about the program's answer to statements about the run of the statement (`followLines_rel`,
`followLines_pred`), the never-panics composition, what `deliveredBy` is (C10), delivered lines that the batch reader
reads as the same text (`PlainLine`), the terminal (`termItems`), and the lifting of the traced-run theorems of
`Lemmas/ExecFT.lean` / `Lemmas/ExecFTBatch.lean` (C06, C11, C19) to the answer of the whole program.
-/
namespace Sqlgrep.Pipeline
open Sqlgrep Sqlgrep.Extract Sqlgrep.Reader Sqlgrep.Spec.Pipeline

/-! ### the answer depends on the delivered lines only through the run of the statement -/

theorem followLines_rel (R : FollowAnswer → FollowAnswer → Prop) (hR : ∀ a, R a a) (F : Facts)
    (defsText queryText : List Char) (fmt : Print.Format) (dl dl' : List (List Nat)) (sa sa' : Option Nat)
    (h : ∀ defs query tables stmt fromTable join,
      parseText (lexOracles F) (regexValidFn F) defsText = .stmt defs →
      parseText (lexOracles F) (regexValidFn F) queryText = .stmt query →
      addTables defs = some tables → stmtOf query = some (stmt, fromTable, join) →
      R (followAnswerOf F fmt (followStatement F tables stmt fromTable join dl sa))
        (followAnswerOf F fmt (followStatement F tables stmt fromTable join dl' sa'))) :
    R (followLines F defsText queryText fmt dl sa) (followLines F defsText queryText fmt dl' sa') := by
  unfold followLines
  split
  · exact hR _
  · cases hd : parseText (lexOracles F) (regexValidFn F) defsText with
    | stmt defs =>
      simp only
      split
      · exact hR _
      · cases hq : parseText (lexOracles F) (regexValidFn F) queryText with
        | stmt query =>
          simp only
          unfold followLowered
          cases ht : addTables defs with
          | none => exact hR _
          | some tables =>
            simp only
            cases hs : stmtOf query with
            | none => exact hR _
            | some p =>
              obtain ⟨stmt, fromTable, join⟩ := p
              exact h defs query tables stmt fromTable join hd hq ht hs
        | lexError l e => exact hR _
        | parseError e => exact hR _
        | convertError e => exact hR _
        | panic s => exact hR _
        | fuel => exact hR _
        | missing w => exact hR _
    | lexError l e => exact hR _
    | parseError e => exact hR _
    | convertError e => exact hR _
    | panic s => exact hR _
    | fuel => exact hR _
    | missing w => exact hR _

/-- `followLines` on texts that lower: the answer of the run of the statement -/
theorem followLines_eq (F : Facts) (defsText queryText : List Char) (fmt : Print.Format) (dl : List (List Nat))
    (sa : Option Nat) (defs query : LStmt) (tables : List Table) (stmt : Stmt) (fromTable : String) (join : Option LJoin)
    (hc : classesCover F defsText = true ∧ classesCover F queryText = true)
    (hd : parseText (lexOracles F) (regexValidFn F) defsText = .stmt defs)
    (hp : (createPatterns defs).all (fun re => ((Utf8.decode re).bind (regexValidOf F)).isSome) = true)
    (hq : parseText (lexOracles F) (regexValidFn F) queryText = .stmt query)
    (ht : addTables defs = some tables) (hs : stmtOf query = some (stmt, fromTable, join)) :
    followLines F defsText queryText fmt dl sa =
      followAnswerOf F fmt (followStatement F tables stmt fromTable join dl sa) := by
  unfold followLines followLowered
  simp only [hc.1, hc.2, Bool.not_true, Bool.or_self, Bool.false_eq_true, if_false, hd, hp, hq, ht, hs]

/-! ### never a panic -/

theorem followStatement_ran (F : Facts) (tables : List Table) (stmt : Stmt) (fromTable : String) (join : Option LJoin)
    (dl : List (List Nat)) (sa : Option Nat) (t : TraceOut)
    (h : followStatement F tables stmt fromTable join dl sa = some (.ran t)) :
    t.out.panicked = false ∧ CallsAligned t.calls := by
  unfold followStatement at h
  cases join with
  | some j => simp at h
  | none =>
    simp only at h
    cases hg : getTable tables fromTable with
    | none =>
      rw [hg] at h
      simp only [Option.some.injEq, FollowRun.ran.injEq] at h
      subst h
      unfold followNoTable
      simp only
      split
      · exact ⟨rfl, fun c hc => by cases hc⟩
      · split
        · exact ⟨rfl, fun c hc => by cases hc⟩
        · exact ⟨rfl, fun c hc => by cases hc⟩
    | some tb =>
      rw [hg] at h
      simp only [bind, Option.bind] at h
      cases hm : (handedLines dl sa).mapM (mkFollowLine F tb.defn) with
      | none => rw [hm] at h; cases h
      | some ls =>
        rw [hm] at h
        simp only [pure, Option.some.injEq, FollowRun.ran.injEq] at h
        subst h
        exact ⟨runFollowAllT_no_panic _ _ _ _, runFollowAllT_aligned _ _ _ _⟩

theorem followAnswerOf_no_panic (F : Facts) (fmt : Print.Format) (r : Option FollowRun)
    (h : ∀ t, r = some (.ran t) → t.out.panicked = false ∧ CallsAligned t.calls) :
    ∀ site, followAnswerOf F fmt r ≠ .panic site := by
  intro site
  cases r with
  | none => simp [followAnswerOf]
  | some fr =>
    cases fr with
    | joinNotSupported => simp [followAnswerOf]
    | ran t =>
      obtain ⟨hp, ha⟩ := h t rfl
      have hnp : t.calls.any (fun c => Print.resultPanics fmt (toResultRow c.result)) = false := by
        rw [List.any_eq_false]
        intro c hc
        have := aligned_no_print_panic fmt c.result (ha c hc)
        simp only [toResultRow]
        rw [this]
        simp
      unfold followAnswerOf
      simp only [hp, Bool.false_eq_true, if_false, hnp]
      split
      · simp
      · split <;> simp

theorem followLines_no_panic (F : Facts) (defsText queryText : List Char) (fmt : Print.Format) (dl : List (List Nat))
    (sa : Option Nat) : ∀ site, followLines F defsText queryText fmt dl sa ≠ .panic site := by
  intro site
  unfold followLines
  split
  · simp
  · have hdt := parseText_total (lexOracles F) (regexValidFn F) defsText
    have hqt := parseText_total (lexOracles F) (regexValidFn F) queryText
    cases hd : parseText (lexOracles F) (regexValidFn F) defsText with
    | stmt defs =>
      simp only
      split
      · simp
      · cases hq : parseText (lexOracles F) (regexValidFn F) queryText with
        | stmt query =>
          simp only
          unfold followLowered
          cases addTables defs with
          | none => simp
          | some tables =>
            simp only
            cases stmtOf query with
            | none => simp
            | some p =>
              obtain ⟨stmt, fromTable, join⟩ := p
              exact followAnswerOf_no_panic F fmt _ (fun t ht => followStatement_ran F tables stmt fromTable join dl sa t ht) site
        | panic s => exact absurd hq (hqt.1 s)
        | fuel => exact absurd hq hqt.2
        | lexError l e => simp
        | parseError e => simp
        | convertError e => simp
        | missing w => simp
    | panic s => exact absurd hd (hdt.1 s)
    | fuel => exact absurd hd hdt.2
    | lexError l e => simp
    | parseError e => simp
    | convertError e => simp
    | missing w => simp

/-! ### what is delivered (C10) -/

/-- the bytes the writer appends in the course of a schedule, in order -/
def appendedBytes : List FollowOp → List Nat
  | [] => []
  | .append bs :: rest => bs ++ appendedBytes rest
  | _ :: rest => appendedBytes rest

/-- the content the follower reads from: the whole file with `--head`, else what is appended after start-up -/
def followedContent (head : Bool) (initial : List Nat) (ops : List FollowOp) : List Nat :=
  (initial ++ appendedBytes ops).drop (if head then 0 else initial.length)

theorem readerOps_append (a b : List FollowOp) : readerOps (a ++ b) = readerOps a ++ readerOps b := by
  induction a with
  | nil => rfl
  | cons op rest ih => cases op <;> simp [readerOps, ih]

theorem readerOps_polls (ks : List Nat) : readerOps (ks.map FollowOp.poll) = ks.map Reader.Op.poll := by
  induction ks with
  | nil => rfl
  | cons k ks ih => simp [readerOps, ih]

theorem run_file_appended (s : Follow) (ops : List FollowOp) :
    (Reader.run s (readerOps ops)).file = s.file ++ appendedBytes ops := by
  unfold Reader.run
  induction ops generalizing s with
  | nil => simp [readerOps, appendedBytes]
  | cons op rest ih =>
    cases op with
    | append bs =>
      simp only [readerOps, List.foldl_cons, appendedBytes]
      rw [ih]
      simp [Reader.step]
    | poll k =>
      simp only [readerOps, List.foldl_cons, appendedBytes]
      rw [ih, (poll_frame s k).1]
    | interrupt =>
      simp only [readerOps, appendedBytes]
      exact ih s

/-! #### the iterator that looks at the flag (`driveReader`) against the plain reader machine -/

/-- without an interrupt in the schedule `driveReader` is the reader machine of `Model/Reader.lean` over the reader's
share of the schedule, and `next()` has not returned `None` -/
theorem driveReader_no_interrupt (s : Follow) (ops : List FollowOp) (h : FollowOp.interrupt ∉ ops) :
    driveReader s false ops = (Reader.run s (readerOps ops), false) := by
  induction ops generalizing s with
  | nil => rfl
  | cons op rest ih =>
    have hr : FollowOp.interrupt ∉ rest := fun hm => h (List.mem_cons_of_mem _ hm)
    cases op with
    | append bs => simp only [driveReader, readerOps, Reader.run, List.foldl_cons]; exact ih _ hr
    | poll k =>
      simp only [driveReader, readerOps, Reader.run, List.foldl_cons, Bool.false_and, Bool.false_eq_true, if_false]
      exact ih _ hr
    | interrupt => exact absurd (List.mem_cons_self ..) h

/-- whatever the flag does, what `driveReader` has delivered is a prefix of what the plain machine delivers over the same
schedule (it only ever stops early) … -/
theorem driveReader_delivered_le_run (s : Follow) (i : Bool) (ops : List FollowOp) :
    (driveReader s i ops).1.delivered <+: (Reader.run s (readerOps ops)).delivered := by
  induction ops generalizing s i with
  | nil => exact List.prefix_refl _
  | cons op rest ih =>
    cases op with
    | append bs => simp only [driveReader, readerOps, Reader.run, List.foldl_cons]; exact ih _ _
    | interrupt => simp only [driveReader, readerOps]; exact ih _ _
    | poll k =>
      simp only [driveReader, readerOps, Reader.run, List.foldl_cons]
      split
      · exact run_delivered_prefix _ _
      · exact ih _ _

/-- … and an extension of what had been delivered before -/
theorem driveReader_extends (s : Follow) (i : Bool) (ops : List FollowOp) :
    s.delivered <+: (driveReader s i ops).1.delivered := by
  induction ops generalizing s i with
  | nil => exact List.prefix_refl _
  | cons op rest ih =>
    have step1 : ∀ o, s.delivered <+: (Reader.step s o).delivered := by
      intro o
      have := run_delivered_prefix s [o]
      simpa [Reader.run] using this
    cases op with
    | append bs => simp only [driveReader]; exact (step1 _).trans (ih _ _)
    | interrupt => simp only [driveReader]; exact ih _ _
    | poll k =>
      simp only [driveReader]
      split
      · exact step1 _
      · exact (step1 _).trans (ih _ _)

theorem driveReader_append (s : Follow) (pre rest : List FollowOp) (h : FollowOp.interrupt ∉ pre) :
    driveReader s false (pre ++ rest) = driveReader (Reader.run s (readerOps pre)) false rest := by
  induction pre generalizing s with
  | nil => rfl
  | cons op pre ih =>
    have hr : FollowOp.interrupt ∉ pre := fun hm => h (List.mem_cons_of_mem _ hm)
    cases op with
    | append bs => simp only [List.cons_append, driveReader, readerOps, Reader.run, List.foldl_cons]; exact ih _ hr
    | poll k =>
      simp only [List.cons_append, driveReader, readerOps, Reader.run, List.foldl_cons, Bool.false_and, Bool.false_eq_true, if_false]
      exact ih _ hr
    | interrupt => exact absurd (List.mem_cons_self ..) h

theorem deliveredBy_eq (head : Bool) (initial : List Nat) (ops : List FollowOp) (h : FollowOp.interrupt ∉ ops) :
    deliveredBy head initial ops = (Props.C10.reached initial head followCap (readerOps ops)).delivered := by
  unfold deliveredBy
  rw [driveReader_no_interrupt _ _ h]
  rfl

/-- **what had been delivered stays delivered**: the lines delivered by a schedule without interrupt are a prefix of the
lines delivered by every continuation of it — interrupted or not -/
theorem deliveredBy_stable (head : Bool) (initial : List Nat) (pre rest : List FollowOp) (h : FollowOp.interrupt ∉ pre) :
    deliveredBy head initial pre <+: deliveredBy head initial (pre ++ rest) := by
  unfold deliveredBy
  rw [driveReader_append _ pre rest h, driveReader_no_interrupt _ pre h]
  exact driveReader_extends _ _ _

theorem beforeInterrupt_split (pre rest : List FollowOp) (h : FollowOp.interrupt ∉ pre) :
    beforeInterrupt (pre ++ FollowOp.interrupt :: rest) = some pre := by
  induction pre with
  | nil => rfl
  | cons op pre ih =>
    have hr : FollowOp.interrupt ∉ pre := fun hm => h (List.mem_cons_of_mem _ hm)
    cases op with
    | interrupt => exact absurd (List.mem_cons_self ..) h
    | append bs => simp [beforeInterrupt, ih hr]
    | poll k => simp [beforeInterrupt, ih hr]

/-- **where the interrupt falls**: the flag is found cleared after exactly the lines the schedule before the interrupt
had delivered -/
theorem interruptPoint_split (head : Bool) (initial : List Nat) (pre rest : List FollowOp) (h : FollowOp.interrupt ∉ pre) :
    interruptPoint head initial (pre ++ FollowOp.interrupt :: rest) = some (deliveredBy head initial pre).length := by
  unfold interruptPoint
  rw [beforeInterrupt_split pre rest h]
  rfl

theorem reached_content (head : Bool) (initial : List Nat) (ops : List FollowOp) :
    let s := Props.C10.reached initial head followCap (readerOps ops)
    s.file.drop s.start = followedContent head initial ops := by
  intro s
  have h1 : s.file = initial ++ appendedBytes ops := by
    show (Reader.run (Follow.init initial head followCap) (readerOps ops)).file = _
    rw [run_file_appended]
    cases head <;> rfl
  have h2 := Props.C10.start_offset initial head followCap (readerOps ops)
  show s.file.drop s.start = _
  rw [h1]
  show List.drop (Props.C10.reached initial head followCap (readerOps ops)).start _ = _
  rw [h2]
  rfl

/-- **exactly once, in order**: whatever the schedule, what has been delivered is a prefix of the complete lines of
the followed content -/
theorem deliveredBy_prefix (head : Bool) (initial : List Nat) (ops : List FollowOp) :
    deliveredBy head initial ops <+: completeLines (followedContent head initial ops) := by
  have h := Props.C10.follow_exactly_once_in_order initial head followCap (readerOps ops)
  have e := reached_content head initial ops
  simp only at h e
  rw [e] at h
  exact (driveReader_delivered_le_run _ false ops).trans h

theorem appendedBytes_polls (ops : List FollowOp) (ks : List Nat) :
    appendedBytes (ops ++ ks.map FollowOp.poll) = appendedBytes ops := by
  induction ops with
  | nil =>
    induction ks with
    | nil => rfl
    | cons k ks ih => simpa [appendedBytes] using ih
  | cons op rest ih => cases op <;> simp [appendedBytes, ih]

/-- **progress**: when the schedule ends with at least as many polls as there were bytes pending, every complete line
has been delivered -/
theorem deliveredBy_quiescent (head : Bool) (initial : List Nat) (ops : List FollowOp) (ks : List Nat)
    (hi : FollowOp.interrupt ∉ ops)
    (hn : pending (Props.C10.reached initial head followCap (readerOps ops)) ≤ ks.length) :
    deliveredBy head initial (ops ++ ks.map .poll) = completeLines (followedContent head initial ops) := by
  have h := (Props.C10.follow_progress initial head followCap (by decide) (readerOps ops) ks hn).1
  have e : readerOps (ops ++ ks.map FollowOp.poll) = readerOps ops ++ ks.map Reader.Op.poll := by
    rw [readerOps_append, readerOps_polls]
  have e' := reached_content head initial (ops ++ ks.map .poll)
  simp only at h e'
  have hi' : FollowOp.interrupt ∉ ops ++ ks.map FollowOp.poll := by simp [hi]
  rw [deliveredBy_eq _ _ _ hi', e, h, ← e, e']
  have := appendedBytes_polls ops ks
  unfold followedContent
  rw [this]

theorem beforeInterrupt_none_iff (ops : List FollowOp) : beforeInterrupt ops = none ↔ FollowOp.interrupt ∉ ops := by
  induction ops with
  | nil => simp [beforeInterrupt]
  | cons op rest ih =>
    cases op with
    | interrupt => simp [beforeInterrupt]
    | append bs => simp [beforeInterrupt, ih]
    | poll k => simp [beforeInterrupt, ih]

theorem interruptPoint_none (head : Bool) (initial : List Nat) (ops : List FollowOp) (h : FollowOp.interrupt ∉ ops) :
    interruptPoint head initial ops = none := by
  unfold interruptPoint
  rw [(beforeInterrupt_none_iff ops).2 h]
  rfl

theorem poll_retry_of_pending_zero (s : Follow) (k : Nat) (hinv : Inv s) (h0 : pending s = 0) :
    s.retries < (Reader.step s (.poll k)).retries := by
  obtain ⟨_, hacc, _, _, _⟩ := hinv
  unfold pending at h0
  have hb : s.buf = [] := List.eq_nil_of_length_eq_zero (by omega)
  have hd : List.drop s.pos s.file = [] := List.drop_eq_nil_of_le (by omega)
  have hnl : endsWithNl s.acc = false := by
    unfold endsWithNl
    cases hl : s.acc.getLast? with
    | none => rfl
    | some x =>
      have hx : x ≠ nl := fun e => hacc (by rw [← e]; exact List.mem_of_getLast? hl)
      simp [hx]
  simp only [Reader.step, fill, hb, if_true, hd, List.take_nil, consume, afterRead, hnl, Bool.false_eq_true, if_false]
  omega

/-- after an interrupt the iterator ends within the polls needed to drain what is pending, plus one -/
theorem driveReader_polls_end (s : Follow) (hinv : Inv s) (hc : 1 ≤ s.cap) (ks : List Nat) (h : pending s < ks.length) :
    (driveReader s true (ks.map FollowOp.poll)).2 = true := by
  induction ks generalizing s with
  | nil => simp at h
  | cons k ks ih =>
    simp only [List.map_cons, driveReader, Bool.true_and]
    by_cases hr : s.retries < (Reader.step s (.poll k)).retries
    · simp [hr]
    · simp only [hr, decide_false, Bool.false_eq_true, if_false]
      have hp : 0 < pending s := by
        rcases Nat.eq_zero_or_pos (pending s) with h0 | h0
        · exact absurd (poll_retry_of_pending_zero s k hinv h0) hr
        · exact h0
      have h1 := poll_pending s k hc
      refine ih _ (step_inv s _ hinv) (by rw [(poll_frame s k).2.2]; exact hc) ?_
      simp only [List.length_cons] at h
      omega
theorem run_cap (s : Follow) (ops : List Reader.Op) : (Reader.run s ops).cap = s.cap := by
  unfold Reader.run
  induction ops generalizing s with
  | nil => rfl
  | cons op ops ih =>
    simp only [List.foldl_cons]
    rw [ih]
    cases op with
    | append bs => rfl
    | poll k => exact (poll_frame s k).2.2

/-- **an interrupted follow run stops waiting**: after the interrupt, within as many polls as there are bytes pending
plus one, `next()` returns `None` — whatever the file does not do any more -/
theorem iteratorEnded_after_interrupt (head : Bool) (initial : List Nat) (pre : List FollowOp) (ks : List Nat)
    (hi : FollowOp.interrupt ∉ pre)
    (hn : pending (Props.C10.reached initial head followCap (readerOps pre)) < ks.length) :
    iteratorEnded head initial (pre ++ FollowOp.interrupt :: ks.map FollowOp.poll) = true := by
  unfold iteratorEnded
  rw [driveReader_append _ pre _ hi]
  simp only [driveReader]
  apply driveReader_polls_end _ (run_inv _ _ (init_inv initial head followCap)) _ ks hn
  rw [run_cap]
  show 1 ≤ followCap
  decide

/-! ### delivered lines that the batch reader reads as the same text -/

/-- a delivered line whose text is the same for `BufRead::lines`: no `\n` inside (true of every delivered line), valid
UTF-8 (so `from_utf8_lossy` is the identity), no `\r` at its end (the batch reader would remove it) -/
def PlainLine (l : List Nat) : Prop := nl ∉ l ∧ validUtf8 l = true ∧ l.getLast? ≠ some cr

instance (l : List Nat) : Decidable (PlainLine l) :=
  inferInstanceAs (Decidable (nl ∉ l ∧ validUtf8 l = true ∧ l.getLast? ≠ some cr))

theorem lines_wire_plain (ls : List (List Nat)) (h : ∀ l ∈ ls, PlainLine l) : Reader.lines (wire ls) = ls.map .ok := by
  have e : wire ls = unlines ls := rfl
  rw [e, lines_unlines ls (fun l hl => (h l hl).1)]
  apply List.map_congr_left
  intro l hl
  obtain ⟨_, h2, h3⟩ := h l hl
  have hv : validUtf8 (l ++ [nl]) = true := by
    have := validUtf8_split_nl l []
    simp only [h2, Bool.true_and] at this
    rw [this]; rfl
  simp only [finishLine, hv, if_true, stripCr, h3, if_false]

theorem mkFollowLine_valid (F : Facts) (d : TableDef) (l : List Nat) (hv : validUtf8 l = true) :
    mkFollowLine F d l = if factsCover F d l then some (extractedLine F d l) else none := by
  simp only [mkFollowLine, lineText, hv, if_true, extractedLine]

theorem mapM_mkFollowLine_valid (F : Facts) (d : TableDef) (ls : List (List Nat)) (hv : ∀ l ∈ ls, validUtf8 l = true) :
    ls.mapM (mkFollowLine F d) = if ls.all (factsCover F d) then some (ls.map (extractedLine F d)) else none := by
  induction ls with
  | nil => rfl
  | cons l rest ih =>
    rw [List.mapM_cons, mkFollowLine_valid F d l (hv l (by simp)), ih (fun x hx => hv x (by simp [hx])), List.all_cons]
    cases factsCover F d l <;> cases rest.all (factsCover F d) <;> rfl

theorem fileLines_wire_plain (F : Facts) (d : TableDef) (ls : List (List Nat)) (h : ∀ l ∈ ls, PlainLine l) :
    fileLines F d (wire ls) =
      if ls.all (factsCover F d) then some (readableFile (ls.map (extractedLine F d))) else none := by
  rw [fileLines_eq, lines_wire_plain ls h]
  have e1 : (ls.map Except.ok).all (itemCovered F d) = ls.all (factsCover F d) := by
    rw [List.all_map]; rfl
  have e2 : fileOf (extractedLine F d) (wire ls) = readableFile (ls.map (extractedLine F d)) := by
    unfold fileOf readableFile
    rw [lines_wire_plain ls h, List.map_map, List.map_map]
    rfl
  rw [e1, e2]

/-! ### the terminal -/

/-- the printer's `first_line` after a sequence of calls -/
def firstAfter (o : Print.RealOracle) (fmt : Print.Format) : Bool → List PrintCall → Bool
  | first, [] => first
  | first, c :: rest => firstAfter o fmt (Print.printResult o fmt (c.final || first) (toResultRow c.result) c.final).2 rest

theorem termItems_append (o : Print.RealOracle) (fmt : Print.Format) (first : Bool) (a b : List PrintCall) :
    termItems o fmt first (a ++ b) = termItems o fmt first a ++ termItems o fmt (firstAfter o fmt first a) b := by
  induction a generalizing first with
  | nil => rfl
  | cons c rest ih => simp only [List.cons_append, termItems, firstAfter, ih, List.append_assoc]

theorem termItems_prefix (o : Print.RealOracle) (fmt : Print.Format) (first : Bool) {a b : List PrintCall} (h : a <+: b) :
    termItems o fmt first a <+: termItems o fmt first b := by
  obtain ⟨c, rfl⟩ := h
  rw [termItems_append]
  exact List.prefix_append _ _

/-- calls none of which clears the screen (a non-aggregate statement) write exactly the lines of the batch printer -/
theorem termItems_no_clear (o : Print.RealOracle) (fmt : Print.Format) (first : Bool) (calls : List PrintCall)
    (h : ∀ c ∈ calls, c.final = false) :
    termItems o fmt first calls =
      ((Print.printAll o fmt first (printCalls false calls)).map Print.Line.bytes).map TermItem.line := by
  induction calls generalizing first with
  | nil => rfl
  | cons c rest ih =>
    have hc : c.final = false := h c (by simp)
    simp only [termItems, printCalls, List.map_cons, Print.printAll, hc, Bool.false_eq_true, if_false, List.nil_append,
      Bool.or_false, Bool.false_or, List.map_append, List.map_map]
    rw [ih _ (fun x hx => h x (by simp [hx]))]
    simp only [printCalls, List.map_map, hc, Bool.or_false]
    rfl

/-! ### screens -/

theorem screens_ne_nil (w : List TermItem) : screens w ≠ [] := by
  induction w with
  | nil => simp [screens]
  | cons it rest ih =>
    cases it with
    | clear => simp [screens]
    | line bs =>
      simp only [screens]
      cases h : screens rest with
      | nil => simp
      | cons s ss => simp

theorem screens_lines (ls : List Print.Bytes) : screens (ls.map TermItem.line) = [ls] := by
  induction ls with
  | nil => rfl
  | cons l rest ih => simp only [List.map_cons, screens, ih]

/-- after a clear followed by lines only, the last screen is those lines -/
theorem screens_last_after_clear (w₀ : List TermItem) (ls : List Print.Bytes) :
    (screens (w₀ ++ TermItem.clear :: ls.map TermItem.line)).getLast? = some ls ∧
    2 ≤ (screens (w₀ ++ TermItem.clear :: ls.map TermItem.line)).length := by
  induction w₀ with
  | nil => simp [screens, screens_lines]
  | cons it rest ih =>
    obtain ⟨h1, h2⟩ := ih
    cases it with
    | clear =>
      simp only [List.cons_append, screens]
      refine ⟨?_, by simp; omega⟩
      cases h : screens (rest ++ TermItem.clear :: ls.map TermItem.line) with
      | nil => exact absurd h (screens_ne_nil _)
      | cons s ss => rw [h] at h1; simpa using h1
    | line bs =>
      simp only [List.cons_append, screens]
      cases h : screens (rest ++ TermItem.clear :: ls.map TermItem.line) with
      | nil => exact absurd h (screens_ne_nil _)
      | cons s ss =>
        rw [h] at h1 h2
        cases ss with
        | nil => simp at h2
        | cons s2 ss2 =>
          simp only
          refine ⟨?_, by simp⟩
          simpa using h1
/-- a clear followed by lines only adds one screen: those lines -/
theorem screens_append_clear (w₀ : List TermItem) (ls : List Print.Bytes) :
    screens (w₀ ++ TermItem.clear :: ls.map TermItem.line) = screens w₀ ++ [ls] := by
  induction w₀ with
  | nil => simp [screens, screens_lines]
  | cons it rest ih =>
    cases it with
    | clear => simp only [List.cons_append, screens, ih]
    | line bs =>
      simp only [List.cons_append, screens, ih]
      cases h : screens rest with
      | nil => exact absurd h (screens_ne_nil _)
      | cons s ss => rfl

theorem keysExact_of_simple (ks : List (List Value)) (h : ks.all (fun k => k.all Spec.Agg.simpleValue) = true) : KeysExact ks := by
  intro a ha b hb hab
  rw [List.all_eq_true] at h
  exact cmpList_eq_of_simple (h a ha) (h b hb) hab

theorem keysExact_subset {ks ks' : List (List Value)} (h : ∀ k ∈ ks', k ∈ ks) (hex : KeysExact ks) : KeysExact ks' :=
  fun a ha b hb hab => hex a (h a ha) b (h b hb) hab

/-! ### the answer of a run -/

/-- the answer of a follow run that neither skips nor meets a missing REAL rendering -/
theorem followAnswerOf_ran (F : Facts) (fmt : Print.Format) (t : TraceOut) (hp : t.out.panicked = false)
    (ha : CallsAligned t.calls) (hs : t.out.skipped = none) (hc : realsCover F t.calls = true) :
    followAnswerOf F fmt (some (.ran t)) = .ran t.out.error (termItems (realOracle F) fmt true t.calls) := by
  have hnp : t.calls.any (fun c => Print.resultPanics fmt (toResultRow c.result)) = false := by
    rw [List.any_eq_false]
    intro c hc'
    have := aligned_no_print_panic fmt c.result (ha c hc')
    simp only [toResultRow]
    rw [this]
    simp
  simp [followAnswerOf, hp, hs, hc, hnp]

/-- inversion: an answer `ran` comes from a run that did not skip, with all renderings shipped -/
theorem followAnswerOf_eq_ran (F : Facts) (fmt : Print.Format) (r : Option FollowRun) (e : Option ErrKind) (w : List TermItem)
    (h : followAnswerOf F fmt r = .ran e w) :
    ∃ t, r = some (.ran t) ∧ t.out.skipped = none ∧ realsCover F t.calls = true ∧ e = t.out.error ∧
      w = termItems (realOracle F) fmt true t.calls := by
  cases r with
  | none => simp [followAnswerOf] at h
  | some fr =>
    cases fr with
    | joinNotSupported => simp [followAnswerOf] at h
    | ran t =>
      refine ⟨t, rfl, ?_⟩
      unfold followAnswerOf at h
      simp only at h
      split at h
      · cases h
      · rename_i hs
        split at h
        · cases h
        · split at h
          · cases h
          · rename_i hr
            split at h
            · cases h
            · simp only [FollowAnswer.ran.injEq] at h
              refine ⟨?_, by simpa using hr, h.1.symm, h.2.symm⟩
              cases hsk : t.out.skipped with
              | none => rfl
              | some x => simp [hsk] at hs

theorem realsCover_prefix (F : Facts) {a b : List PrintCall} (h : a <+: b) (hb : realsCover F b = true) :
    realsCover F a = true := by
  obtain ⟨c, rfl⟩ := h
  unfold realsCover at hb ⊢
  rw [List.all_append, Bool.and_eq_true] at hb
  exact hb.1

/-! ### the run of the statement over delivered lines -/

/-- the run of a statement without join whose FROM table is defined -/
theorem followStatement_defined (F : Facts) (tables : List Table) (stmt : Stmt) (fromTable : String) (dl : List (List Nat))
    (sa : Option Nat) (t : Table) (hg : getTable tables fromTable = some t) :
    followStatement F tables stmt fromTable none dl sa =
      ((handedLines dl sa).mapM (mkFollowLine F t.defn)).map
        (fun ls => .ran (runFollowAllT F.eval { stmt := stmt, table := t.info, join := none } sa ls)) := by
  unfold followStatement
  simp only [hg, bind, pure]
  cases (handedLines dl sa).mapM (mkFollowLine F t.defn) <;> rfl

theorem mapM_length {α β : Type} (f : α → Option β) (xs : List α) (ys : List β) (h : xs.mapM f = some ys) :
    ys.length = xs.length := by
  induction xs generalizing ys with
  | nil => simp at h; subst h; rfl
  | cons x rest ih =>
    rw [List.mapM_cons] at h
    cases hx : f x with
    | none => rw [hx] at h; cases h
    | some y =>
      rw [hx] at h
      cases hr : rest.mapM f with
      | none => rw [hr] at h; cases h
      | some ys' =>
        rw [hr] at h
        simp only [bind, Option.bind, pure, Option.some.injEq] at h
        subst h
        simp [ih ys' hr]

theorem mapM_take {α β : Type} (f : α → Option β) (xs : List α) (ys : List β) (k : Nat) (h : xs.mapM f = some ys) :
    (xs.take k).mapM f = some (ys.take k) := by
  induction xs generalizing ys k with
  | nil => simp at h; subst h; simp
  | cons x rest ih =>
    rw [List.mapM_cons] at h
    cases hx : f x with
    | none => rw [hx] at h; cases h
    | some y =>
      rw [hx] at h
      cases hr : rest.mapM f with
      | none => rw [hr] at h; cases h
      | some ys' =>
        rw [hr] at h
        simp only [bind, Option.bind, pure, Option.some.injEq] at h
        subst h
        cases k with
        | zero => simp
        | succ k =>
          rw [List.take_succ_cons, List.mapM_cons, hx, ih ys' k hr]
          rfl

/-- a line that yields no row in follow mode: its text (`from_utf8_lossy`) is known, its facts are shipped and
`Extract.admitted` is false -/
def noRowFollow (F : Facts) (d : TableDef) (l : List Nat) : Bool :=
  match lineText F l with
  | some t => noRow F d t
  | none => false

theorem mkFollowLine_noise (F : Facts) (d : TableDef) (l : List Nat) (h : noRowFollow F d l = true) :
    ∃ ln, mkFollowLine F d l = some ln ∧ Sqlgrep.anyResult ln.row = false := by
  unfold noRowFollow at h
  cases ht : lineText F l with
  | none => rw [ht] at h; cases h
  | some t =>
    rw [ht] at h
    simp only [noRow, Bool.and_eq_true, Bool.not_eq_true', Extract.admitted] at h
    refine ⟨{ text := t, row := extractRow (extractOracles F) d (lineOracle t ((F.lines.lookup t).getD {})) }, ?_, ?_⟩
    · simp only [mkFollowLine, ht, h.1, if_true]
    · exact h.2

theorem mapM_append_some {α β : Type} (f : α → Option β) (a b : List α) :
    (a ++ b).mapM f = (a.mapM f).bind (fun x => (b.mapM f).map (fun y => x ++ y)) := by
  induction a with
  | nil =>
    simp only [List.nil_append, List.mapM_nil]
    cases b.mapM f <;> rfl
  | cons x rest ih =>
    rw [List.cons_append, List.mapM_cons, List.mapM_cons, ih]
    cases f x with
    | none => rfl
    | some y =>
      cases rest.mapM f with
      | none => rfl
      | some ys => cases b.mapM f <;> rfl

/-- noise lines among the delivered lines: they are covered, and the prepared lines are the same once the lines without
a row are filtered out -/
theorem mapM_noise (F : Facts) (d : TableDef) (a ns b : List (List Nat)) (h : ∀ l ∈ ns, noRowFollow F d l = true) :
    ((a ++ ns ++ b).mapM (mkFollowLine F d) = none ∧ (a ++ b).mapM (mkFollowLine F d) = none) ∨
    ∃ x y, (a ++ ns ++ b).mapM (mkFollowLine F d) = some x ∧ (a ++ b).mapM (mkFollowLine F d) = some y ∧
      x.filter (fun l => Sqlgrep.anyResult l.row) = y.filter (fun l => Sqlgrep.anyResult l.row) := by
  have hns : ∃ n, ns.mapM (mkFollowLine F d) = some n ∧ n.filter (fun l => Sqlgrep.anyResult l.row) = [] := by
    induction ns with
    | nil => exact ⟨[], rfl, rfl⟩
    | cons l rest ih =>
      obtain ⟨ln, h1, h2⟩ := mkFollowLine_noise F d l (h l (by simp))
      obtain ⟨n, h3, h4⟩ := ih (fun x hx => h x (by simp [hx]))
      refine ⟨ln :: n, ?_, ?_⟩
      · rw [List.mapM_cons, h1, h3]; rfl
      · simp only [List.filter_cons, h2, Bool.false_eq_true, if_false]; exact h4
  obtain ⟨n, hn1, hn2⟩ := hns
  rw [List.append_assoc, mapM_append_some, mapM_append_some, mapM_append_some, hn1]
  cases ha : a.mapM (mkFollowLine F d) with
  | none => left; exact ⟨rfl, rfl⟩
  | some xa =>
    cases hb : b.mapM (mkFollowLine F d) with
    | none => left; exact ⟨rfl, rfl⟩
    | some xb =>
      right
      refine ⟨xa ++ (n ++ xb), xa ++ xb, rfl, rfl, ?_⟩
      simp only [List.filter_append, hn2, List.nil_append]

/-! ### follow mode against batch mode over the same lines -/

/-- a batch answer read as a follow-mode answer: the printed lines as terminal lines, the line counter dropped -/
def batchAsFollow : Answer → FollowAnswer
  | .rejected w p => .rejected w p
  | .notCreateTable => .notCreateTable
  | .notAQuery => .notAQuery
  | .records e _ ls => .ran e (ls.map TermItem.line)
  | .panic s => .panic s
  | .skip w => .skip w

/-- a relation between the follow-mode answer and the batch answer of the same texts reduces to the runs of the statement -/
theorem followLines_runText_rel (R : FollowAnswer → Answer → Prop)
    (hskip : ∀ w, R (.skip w) (.skip w)) (hpanic : ∀ s, R (.panic s) (.panic s)) (hrej : ∀ w p, R (.rejected w p) (.rejected w p))
    (hnc : R .notCreateTable .notCreateTable) (hnq : R .notAQuery .notAQuery)
    (F : Facts) (defsText queryText : List Char) (fmt : Print.Format) (single : Bool) (dl : List (List Nat)) (sa : Option Nat)
    (files : List (List Nat))
    (h : ∀ defs query tables stmt fromTable join,
      parseText (lexOracles F) (regexValidFn F) defsText = .stmt defs →
      parseText (lexOracles F) (regexValidFn F) queryText = .stmt query →
      addTables defs = some tables → stmtOf query = some (stmt, fromTable, join) →
      R (followAnswerOf F fmt (followStatement F tables stmt fromTable join dl sa))
        (answerOfOpt F fmt single (runStatement F tables stmt fromTable join files))) :
    R (followLines F defsText queryText fmt dl sa) (runText F defsText queryText fmt single files) := by
  unfold followLines runText
  split
  · exact hskip _
  · cases hd : parseText (lexOracles F) (regexValidFn F) defsText with
    | stmt defs =>
      simp only
      split
      · exact hskip _
      · cases hq : parseText (lexOracles F) (regexValidFn F) queryText with
        | stmt query =>
          simp only
          cases ht : addTables defs with
          | none => unfold followLowered runLowered; rw [ht]; exact hnc
          | some tables =>
            cases hs : stmtOf query with
            | none => unfold followLowered runLowered; rw [ht]; simp only; rw [hs]; exact hnq
            | some p =>
              obtain ⟨stmt, fromTable, join⟩ := p
              rw [runLowered_eq_opt F defs query fmt single files tables stmt fromTable join ht hs]
              unfold followLowered
              rw [ht]; simp only; rw [hs]
              exact h defs query tables stmt fromTable join hd hq ht hs
        | lexError l e => exact hrej _ _
        | parseError e => exact hrej _ _
        | convertError e => exact hrej _ _
        | panic s => exact hpanic _
        | fuel => exact hpanic _
        | missing w => exact hskip _
    | lexError l e => exact hrej _ _
    | parseError e => exact hrej _ _
    | convertError e => exact hrej _ _
    | panic s => exact hpanic _
    | fuel => exact hpanic _
    | missing w => exact hskip _

/-- the same run in both modes, none of whose calls clears the screen: the follow answer is the batch answer -/
theorem followAnswerOf_no_clear (F : Facts) (fmt : Print.Format) (t : TraceOut) (h : ∀ c ∈ t.calls, c.final = false) :
    followAnswerOf F fmt (some (.ran t)) = batchAsFollow (answerOf F fmt false t) := by
  have hany : t.calls.any (fun c => Print.resultPanics fmt (toResultRow c.result)) =
      (printCalls false t.calls).any (fun c => Print.resultPanics fmt c.1) := by
    simp only [printCalls, List.any_map]
    rfl
  unfold followAnswerOf answerOf
  simp only
  split
  · rfl
  · split
    · rfl
    · split
      · rfl
      · rw [hany]
        split
        · rfl
        · simp only [batchAsFollow]
          rw [termItems_no_clear _ _ _ _ h]

theorem followCalls_final (single : Bool) (los : List LineOut) : ∀ c ∈ followCalls single los, c.final = single := by
  induction los with
  | nil => intro c hc; cases hc
  | cons lo rest ih =>
    intro c hc
    unfold followCalls at hc
    cases hr : lo.result with
    | none => rw [hr] at hc; exact ih c hc
    | some r =>
      rw [hr] at hc
      simp only [List.mem_cons] at hc
      rcases hc with rfl | hc
      · rfl
      · split at hc
        · cases hc
        · exact ih c hc

theorem runFollowAllT_calls_final (O : Oracles) (qy : Query) (lines : List Line) :
    ∀ c ∈ (runFollowAllT O qy none lines).calls, c.final = isUpdated qy := by
  rw [runFollowAllT_calls]
  split
  · intro c hc; cases hc
  · exact followCalls_final _ _

/-- inversion: a batch answer `records` comes from a run that did not skip, with all renderings shipped -/
theorem answerOf_eq_records (F : Facts) (fmt : Print.Format) (single : Bool) (t : TraceOut) (e : Option ErrKind) (n : Nat)
    (ls : List Print.Bytes) (h : answerOf F fmt single t = .records e n ls) :
    t.out.skipped = none ∧ realsCover F t.calls = true ∧ e = t.out.error ∧ n = t.out.totalLines ∧
      ls = (Print.printAll (realOracle F) fmt true (printCalls single t.calls)).map Print.Line.bytes := by
  unfold answerOf at h
  split at h
  · cases h
  · rename_i hs
    split at h
    · cases h
    · split at h
      · cases h
      · rename_i hr
        simp only at h
        split at h
        · cases h
        · simp only [Answer.records.injEq] at h
          refine ⟨?_, by simpa using hr, h.1.symm, h.2.1.symm, h.2.2.symm⟩
          cases hsk : t.out.skipped with
          | none => rfl
          | some x => simp [hsk] at hs

/-- the batch run over one file holding plain lines, for a statement without join whose FROM table is defined -/
theorem runStatement_wire (F : Facts) (tables : List Table) (stmt : Stmt) (fromTable : String) (t : Table)
    (hg : getTable tables fromTable = some t) (ls : List (List Nat)) (h : ∀ l ∈ ls, PlainLine l) :
    runStatement F tables stmt fromTable none [wire ls] =
      if ls.all (factsCover F t.defn) then
        some (runBatchT F.eval { stmt := stmt, table := t.info, join := none } none [readableFile (ls.map (extractedLine F t.defn))])
      else none := by
  rw [runStatement_defined F tables stmt fromTable none _ t hg]
  simp only [List.mapM_cons, List.mapM_nil, fileLines_wire_plain F t.defn ls h]
  cases ls.all (factsCover F t.defn) <;> rfl

/-- the follow run over plain lines, for a statement without join whose FROM table is defined -/
theorem followStatement_plain (F : Facts) (tables : List Table) (stmt : Stmt) (fromTable : String) (t : Table)
    (hg : getTable tables fromTable = some t) (ls : List (List Nat)) (h : ∀ l ∈ ls, validUtf8 l = true) :
    followStatement F tables stmt fromTable none ls none =
      if ls.all (factsCover F t.defn) then
        some (.ran (runFollowAllT F.eval { stmt := stmt, table := t.info, join := none } none (ls.map (extractedLine F t.defn))))
      else none := by
  rw [followStatement_defined F tables stmt fromTable ls none t hg]
  show (ls.mapM (mkFollowLine F t.defn)).map _ = _
  rw [mapM_mkFollowLine_valid F t.defn ls h]
  cases ls.all (factsCover F t.defn) <;> rfl

end Sqlgrep.Pipeline
