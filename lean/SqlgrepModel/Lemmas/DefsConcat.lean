import SqlgrepModel.Lemmas.ParseConcat
import SqlgrepModel.Lemmas.LexConcat
import SqlgrepModel.Lemmas.ParseBlind
/-
`parsing::parse` (tokenizer, parser, lowering) on a concatenation of two definition texts, from the three stage lemmas
`Lex.Concat.tokenize_append`, `Parse.parseTokens_append` and the lowering of a list of CREATE TABLE statements
(`lowerCreates_append`): when `A` is accepted as CREATE TABLE statements and ends cleanly in `) ;`, and the first token of
`B` is `CREATE`, then `A ++ B` is read as the statements of `A` followed by the statements of `B`; if `B` is not accepted,
`A ++ B` is rejected with the same kind of error.
-/
namespace Sqlgrep

namespace Parse.Concat

theorem parseSelect_ok_select (T : PrecTables) (f : Nat) (s s' : PSt) (op : POp) (h : parseSelect T f s = .ok op s') :
    ∃ q, op = .select q := by
  unfold parseSelect at h
  dsimp only at h
  repeat' split at h
  all_goals (cases h; try exact ⟨_, rfl⟩)

/-- a token vector the parser reads as CREATE TABLE statements starts with `CREATE` -/
theorem parseTokens_creates_first {T : PrecTables} (c : PTok) (r : List PTok) (op : POp)
    (h : parseTokens T (c :: r) = .tree op) (hns : ∀ q, op ≠ .select q) : c.tok = .kw .create := by
  unfold parseTokens parseTokensFuel at h
  simp only [] at h
  unfold parseOp at h
  by_cases h0 : c.tok ≠ .kw .select ∧ c.tok ≠ .kw .create
  · simp [h0, mkErr] at h
  · simp only [h0, if_false] at h
    by_cases hsel : c.tok = .kw .select
    · exfalso
      unfold parseStatement at h
      simp only [hsel, if_true] at h
      cases hp : parseSelect T (fuelBound (c :: r).length) ⟨c, r⟩ with
      | fuel => rw [hp] at h; cases h
      | err e s' => rw [hp] at h; simp only [] at h; revert h; cases optSemi s' <;> intro h <;> cases h
      | ok op' s1 =>
        rw [hp] at h
        simp only [] at h
        obtain ⟨q, rfl⟩ := parseSelect_ok_select T _ _ _ _ hp
        revert h
        cases optSemi s1 with
        | err e s' => intro h; cases h
        | fuel => intro h; cases h
        | ok u s2 =>
          intro h
          simp only [] at h
          by_cases hemp : s2.rest.isEmpty = true
          · simp only [hemp, if_true, ParseOutcome.tree.injEq] at h
            exact hns q h.symm
          · simp [hemp, mkErr] at h
    · by_cases hcr : c.tok = .kw .create
      · exact hcr
      · exact absurd ⟨hsel, hcr⟩ h0

/-- … and the tree is a non-empty list of CREATE TABLE statements -/
theorem parseTokens_creates_shape {T : PrecTables} (c : PTok) (r : List PTok) (op : POp) (hc : c.tok = .kw .create)
    (h : parseTokens T (c :: r) = .tree op) : ∃ cs, cs ≠ [] ∧ op = opOfCreates cs := by
  unfold parseTokens parseTokensFuel at h
  simp only [] at h
  rw [parseOp_create T _ _ hc] at h
  cases hcl : createsLoop T (fuelBound (c :: r).length) ⟨c, r⟩ with
  | fuel => rw [hcl] at h; cases h
  | err e s' => rw [hcl] at h; simp only [] at h; revert h; cases optSemi s' <;> intro h <;> cases h
  | ok cs s1 =>
    rw [hcl] at h
    simp only [] at h
    have hne : cs ≠ [] := by
      cases hf : fuelBound (c :: r).length with
      | zero => rw [hf, createsLoop] at hcl; cases hcl
      | succ f =>
        rw [hf, createsLoop] at hcl
        revert hcl
        cases parseCreateTable T f ⟨c, r⟩ with
        | err e s' => intro hcl; cases hcl
        | fuel => intro hcl; cases hcl
        | ok c1 s2 =>
          intro hcl
          simp only [] at hcl
          split at hcl
          · cases hcl; simp
          · revert hcl
            cases createsLoop T f s2 <;> intro hcl <;> cases hcl
            simp
    revert h
    cases optSemi s1 with
    | err e s' => intro h; cases h
    | fuel => intro h; cases h
    | ok u s2 =>
      intro h
      simp only [] at h
      by_cases hemp : s2.rest.isEmpty = true
      · simp only [hemp, if_true, ParseOutcome.tree.injEq] at h
        exact ⟨cs, hne, h.symm⟩
      · simp [hemp, mkErr] at h

end Parse.Concat

namespace Lower.Concat
open Sqlgrep.Lower

theorem lowerCreates_append (rv : List Char → Bool) : ∀ (a b : List PCreate),
    lowerCreates rv (a ++ b) =
      match lowerCreates rv a with
      | .ok sa =>
        (match lowerCreates rv b with
         | .ok sb => .ok (sa ++ sb)
         | .err e => .err e
         | .panic s => .panic s)
      | .err e => .err e
      | .panic s => .panic s := by
  intro a
  induction a with
  | nil => intro b; simp only [List.nil_append, lowerCreates]; cases lowerCreates rv b <;> rfl
  | cons c cs ih =>
    intro b
    simp only [List.cons_append, lowerCreates]
    cases lowerCreate rv c with
    | err e => rfl
    | panic s => rfl
    | ok s =>
      simp only []
      rw [ih b]
      cases lowerCreates rv cs with
      | err e => rfl
      | panic s => rfl
      | ok ss => simp only []; cases lowerCreates rv b <;> rfl

/-- the statements of a lowered definition text -/
def stmtsOf : LStmt → List LStmt
  | .multiple ss => ss
  | s => [s]

theorem lowerCreate_shape (rv : List Char → Bool) (c : PCreate) (d : LStmt) (h : lowerCreate rv c = .ok d) :
    ∃ n t cols, d = .createTable n t cols := by
  unfold lowerCreate at h
  split at h
  · split at h
    · cases h; exact ⟨_, _, _, rfl⟩
    · cases h
  · cases h
  · cases h

/-- the statement a list of lowered CREATE TABLE statements stands for -/
def ofStmts : List LStmt → LStmt
  | [s] => s
  | ss => .multiple ss

/-- lowering a parsed list of CREATE TABLE statements, as a list -/
theorem lowerStatement_creates (rv : List Char → Bool) (cs : List PCreate) (hne : cs ≠ []) :
    lowerStatement rv (Parse.opOfCreates cs) =
      match lowerCreates rv cs with
      | .ok ss => .ok (ofStmts ss)
      | .err e => .err e
      | .panic s => .panic s := by
  cases cs with
  | nil => exact absurd rfl hne
  | cons c rest =>
    cases rest with
    | nil =>
      simp only [Parse.opOfCreates, lowerStatement, lowerCreates]
      cases lowerCreate rv c <;> rfl
    | cons c2 rest2 =>
      simp only [Parse.opOfCreates, lowerStatement]
      cases h : lowerCreates rv (c :: c2 :: rest2) with
      | err e => rfl
      | panic s => rfl
      | ok ss =>
        -- two statements at least
        simp only [lowerCreates] at h
        revert h
        cases lowerCreate rv c with
        | err e => intro h; cases h
        | panic s => intro h; cases h
        | ok s1 =>
          simp only []
          cases lowerCreate rv c2 with
          | err e => intro h; cases h
          | panic s => intro h; cases h
          | ok s2 =>
            simp only []
            cases lowerCreates rv rest2 with
            | err e => intro h; cases h
            | panic s => intro h; cases h
            | ok ss2 => intro h; cases h; rfl

theorem lowerCreates_shape (rv : List Char → Bool) : ∀ (cs : List PCreate) (ss : List LStmt), lowerCreates rv cs = .ok ss →
    ss.length = cs.length ∧ ∀ s ∈ ss, ∃ n t cols, s = .createTable n t cols := by
  intro cs
  induction cs with
  | nil => intro ss h; simp only [lowerCreates, LRes.ok.injEq] at h; subst h; simp
  | cons c cs ih =>
    intro ss h
    simp only [lowerCreates] at h
    revert h
    cases hc : lowerCreate rv c with
    | err e => intro h; cases h
    | panic s => intro h; cases h
    | ok s1 =>
      simp only []
      cases hr : lowerCreates rv cs with
      | err e => intro h; cases h
      | panic s => intro h; cases h
      | ok ss1 =>
        intro h
        cases h
        obtain ⟨hl, hs⟩ := ih ss1 hr
        refine ⟨by simp [hl], ?_⟩
        intro s hs'
        rcases List.mem_cons.1 hs' with rfl | hin
        · exact lowerCreate_shape rv c _ hc
        · exact hs s hin

theorem stmtsOf_ofStmts (ss : List LStmt) (h : ∀ s ∈ ss, ∃ n t cols, s = LStmt.createTable n t cols) :
    stmtsOf (ofStmts ss) = ss := by
  cases ss with
  | nil => rfl
  | cons s rest =>
    cases rest with
    | nil => obtain ⟨n, t, cols, rfl⟩ := h s List.mem_cons_self; rfl
    | cons s2 rest2 => rfl

theorem lowerStatement_select_shape (rv : List Char → Bool) (q : PSelect) (d : LStmt)
    (h : lowerStatement rv (.select q) = .ok d) :
    (∃ a b c e, d = .select a b c e) ∨ (∃ a b c e, d = .aggregate a b c e) := by
  have hs : ∀ d, lowerSelect q = .ok d → ∃ a b c e, d = .select a b c e := by
    intro d h
    unfold lowerSelect at h
    repeat' split at h
    all_goals (cases h; try exact ⟨_, _, _, _, rfl⟩)
  have ha : ∀ d, lowerAggregateStmt q = .ok d → ∃ a b c e, d = .aggregate a b c e := by
    intro d h
    unfold lowerAggregateStmt at h
    repeat' split at h
    all_goals (cases h; try exact ⟨_, _, _, _, rfl⟩)
  rw [lowerStatement] at h
  by_cases h1 : q.groupBy.isSome = true
  · rw [if_pos h1] at h; exact Or.inr (ha d h)
  · rw [if_neg h1] at h
    by_cases h2 : anyAggregates q.projections = true
    · rw [if_pos h2] at h; exact Or.inr (ha d h)
    · rw [if_neg h2] at h
      by_cases h3 : q.having.isSome = true
      · rw [if_pos h3] at h; cases h
      · rw [if_neg h3] at h; exact Or.inl (hs d h)

theorem ofStmts_two (a b : List LStmt) (ha : a ≠ []) (hb : b ≠ []) : ofStmts (a ++ b) = .multiple (a ++ b) := by
  cases a with
  | nil => exact absurd rfl ha
  | cons x xs =>
    cases b with
    | nil => exact absurd rfl hb
    | cons y ys => cases xs <;> rfl

end Lower.Concat

namespace Pipeline.Concat
open Sqlgrep.Pipeline Parse Lower Parse.Concat Lower.Concat

/-- what `parsing::parse` makes of `A ++ B` from what it makes of `B`, the statements of `A` being `ssA` -/
def concatParsed (ssA : List LStmt) : Parsed → Parsed
  | .stmt dB => .stmt (.multiple (ssA ++ stmtsOf dB))
  | p => p

/-- **parser and lowering on concatenated token vectors.** `tsA = A' ++ [End]` is accepted and lowers to the CREATE TABLE
statements `dA`; `A'` ends in `) ;`; `tsB` starts with `CREATE`; `tsC` has the tokens of `A'` followed by those of `tsB`
(at any locations). Then `tsC` lowers to the statements of `dA` followed by those `tsB` lowers to — or is rejected as
`tsB` is (same kind of error). -/
theorem parseToks_append (rv : List Char → Bool) (A' : List PTok) (eA : PTok) (tsB tsC : List PTok) (dA : LStmt)
    (hend : ∃ A0 p q, A' = A0 ++ [p, q] ∧ p.tok = .rp ∧ q.tok = .semi)
    (hB : ∃ y Y, tsB = y :: Y ∧ y.tok = .kw .create)
    (hC : tsC.map (·.tok) = A'.map (·.tok) ++ tsB.map (·.tok))
    (hA : parseToks rv (A' ++ [eA]) = .stmt dA)
    (hcreates : ∀ s ∈ stmtsOf dA, ∃ n t cols, s = LStmt.createTable n t cols) :
    (parseToks rv tsC).stripLoc = (concatParsed (stmtsOf dA) (parseToks rv tsB)).stripLoc := by
  obtain ⟨y, Y, rfl, hy⟩ := hB
  -- everything at the default location
  have hCs : (parseToks rv tsC).stripLoc = (parseToks rv (A'.map PTok.strip ++ (y :: Y).map PTok.strip)).stripLoc := by
    apply parseToks_locations_irrelevant
    simp [hC, PTok.strip, Function.comp_def]
  have hBs : (parseToks rv (y :: Y)).stripLoc = (parseToks rv ((y :: Y).map PTok.strip)).stripLoc :=
    (parseToks_strip rv (y :: Y)).symm
  have hAs : parseToks rv ((A' ++ [eA]).map PTok.strip) = .stmt dA :=
    parseToks_stmt_of_same_tokens rv _ _ (by simp [PTok.strip, Function.comp_def]) dA hA
  have hstripC : ∀ (ss : List LStmt) (p : Parsed), (concatParsed ss p).stripLoc = (concatParsed ss p.stripLoc).stripLoc := by
    intro ss p; cases p <;> rfl
  rw [hCs, hstripC, hBs, ← hstripC]
  -- the tree of `A`
  unfold parseToks at hAs
  cases htA : parseTokens PrecTables.code ((A' ++ [eA]).map PTok.strip) with
  | error e => rw [htA] at hAs; cases hAs
  | fuel => rw [htA] at hAs; cases hAs
  | panic => rw [htA] at hAs; cases hAs
  | tree tA =>
    rw [htA] at hAs
    simp only [] at hAs
    have hlA : lowerStatement rv tA = .ok dA := by
      unfold lowerTree at hAs
      cases hl : lowerStatement rv tA <;> rw [hl] at hAs <;> simp at hAs
      rw [hAs]
    -- `A'` is not empty (it ends in `) ;`), starts with CREATE, and its tree is a list of CREATE TABLE statements
    obtain ⟨A0, p, q, hApq, hp, hq⟩ := hend
    cases hA'c : A' with
    | nil => rw [hA'c] at hApq; simp at hApq
    | cons c0 r0 =>
      rw [hA'c] at htA hApq
      simp only [List.cons_append, List.map_cons, List.map_append, List.map_nil] at htA
      have hnsel : ∀ qq, tA ≠ .select qq := by
        intro qq hq'
        subst hq'
        rcases lowerStatement_select_shape rv qq dA hlA with ⟨a, b, c, e, rfl⟩ | ⟨a, b, c, e, rfl⟩
        · obtain ⟨n, t, cols, h⟩ := hcreates (LStmt.select a b c e) (by simp [stmtsOf]); cases h
        · obtain ⟨n, t, cols, h⟩ := hcreates (LStmt.aggregate a b c e) (by simp [stmtsOf]); cases h
      have hc0 := parseTokens_creates_first (PTok.strip c0) _ tA htA hnsel
      obtain ⟨cA, hcAne, rfl⟩ := parseTokens_creates_shape (PTok.strip c0) _ _ hc0 htA
      -- the statements of `A`
      rw [lowerStatement_creates rv cA hcAne] at hlA
      cases hlcA : lowerCreates rv cA with
      | err e => rw [hlcA] at hlA; cases hlA
      | panic s => rw [hlcA] at hlA; cases hlA
      | ok ssA =>
        rw [hlcA] at hlA
        simp only [LRes.ok.injEq] at hlA
        obtain ⟨hlenA, hshapeA⟩ := lowerCreates_shape rv cA ssA hlcA
        have hssA : stmtsOf dA = ssA := by rw [← hlA]; exact stmtsOf_ofStmts ssA hshapeA
        have hssAne : ssA ≠ [] := by
          intro h0; rw [h0] at hlenA; exact hcAne (List.length_eq_zero_iff.1 hlenA.symm)
        -- the parser on the concatenation
        have hend' : ∃ A0' p' q', PTok.strip c0 :: r0.map PTok.strip = A0' ++ [p', q'] ∧ p'.tok = .rp ∧ q'.tok = .semi := by
          refine ⟨A0.map PTok.strip, PTok.strip p, PTok.strip q, ?_, hp, hq⟩
          have := congrArg (List.map PTok.strip) hApq
          simpa using this
        have hcat := parseTokens_append (T := PrecTables.code) inertBoundary_code (PTok.strip c0) (r0.map PTok.strip)
          (PTok.strip eA) (PTok.strip y) (Y.map PTok.strip) (opOfCreates cA) hc0 hy rfl hend' (by simpa using htA)
        rw [createsOf_opOfCreates cA hcAne] at hcat
        simp only [List.map_cons, List.cons_append] at hcat ⊢
        unfold parseToks
        rw [hcat]
        cases htB : parseTokens PrecTables.code (PTok.strip y :: Y.map PTok.strip) with
        | error e => rfl
        | fuel => rfl
        | panic => rfl
        | tree opB =>
          simp only []
          obtain ⟨cB, hcBne, rfl⟩ := parseTokens_creates_shape (PTok.strip y) _ opB hy htB
          rw [createsOf_opOfCreates cB hcBne]
          have hne2 : cA ++ cB ≠ [] := by simp [hcAne]
          unfold lowerTree
          rw [lowerStatement_creates rv (cA ++ cB) hne2, lowerStatement_creates rv cB hcBne, lowerCreates_append, hlcA]
          simp only []
          cases hlcB : lowerCreates rv cB with
          | err e => rfl
          | panic s => rfl
          | ok ssB =>
            simp only []
            obtain ⟨hlenB, hshapeB⟩ := lowerCreates_shape rv cB ssB hlcB
            have hssBne : ssB ≠ [] := by
              intro h0; rw [h0] at hlenB; exact hcBne (List.length_eq_zero_iff.1 hlenB.symm)
            rw [ofStmts_two ssA ssB hssAne hssBne]
            simp only [concatParsed, hssA, stmtsOf_ofStmts ssB hshapeB]

/-! ### texts -/

/-- what the tokenizer answers on a text that ends cleanly: its tokens, then `End` -/
theorem tokenize_of_cleanEnd (o : Lex.Oracles) (A : List Char) (st : Lex.St) (h : Lex.Concat.CleanEnd o A st) :
    ∃ eA : PTok, Lex.tokenize o A = .ok (st.toks.reverse ++ [eA]) := by
  obtain ⟨hrun, _, _, _, _, hpend, hlast⟩ := h
  unfold Lex.tokenize
  rw [hrun]
  simp only [Lex.R.bind, Lex.finish, Lex.flush, hpend, Lex.St.close, hlast]
  have : ¬ (some Tok.semi = some Lex.dashDash) := by decide
  simp only [this, if_false, Lex.St.add, List.reverse_cons]
  exact ⟨_, rfl⟩

/-- the first token of the text is `CREATE` (when the text tokenizes at all) -/
def FirstCreate (o : Lex.Oracles) (B : List Char) : Prop :=
  match Lex.tokenize o B with
  | .ok (t :: _) => t.tok = .kw .create
  | .ok [] => False
  | _ => True

/-- the text `A` ends, outside strings, comments and escapes, behind the `) ;` of a statement: `Lex.Concat.CleanEnd` with the
token before the final `;` being `)` (a second `;` there would make `Parser::parse` refuse what follows) -/
def EndsStatement (o : Lex.Oracles) (A : List Char) : Prop :=
  ∃ st : Lex.St, Lex.Concat.CleanEnd o A st ∧ ∃ q p rest, st.toks = q :: p :: rest ∧ p.tok = .rp

/-- **`parsing::parse` on a concatenation of definition texts.** `A` is accepted and lowers to CREATE TABLE statements,
and ends behind the `) ;` of its last statement; the first token of `B` is `CREATE`. Then `A ++ B` is read as the
statements of `A` followed by the statements of `B`, and is rejected exactly as `B` is if `B` is rejected (same kind of
tokenizer / parser / conversion error; locations differ: they are counted from the beginning of `A`). -/
theorem parseText_append (lo : Lex.Oracles) (rv : List Char → Bool) (A B : List Char) (dA : LStmt)
    (hend : EndsStatement lo A) (hA : parseText lo rv A = .stmt dA)
    (hcreates : ∀ s ∈ stmtsOf dA, ∃ n t cols, s = LStmt.createTable n t cols)
    (hB : FirstCreate lo B) :
    (parseText lo rv (A ++ B)).stripLoc = (concatParsed (stmtsOf dA) (parseText lo rv B)).stripLoc := by
  obtain ⟨st, hclean, q, p, rest, htoks, hp⟩ := hend
  obtain ⟨eA, htokA⟩ := tokenize_of_cleanEnd lo A st hclean
  have hq : q.tok = .semi := by
    have := hclean.2.2.2.2.2.2
    simp [Lex.St.lastTok, htoks] at this
    exact this
  unfold parseText at hA ⊢
  rw [htokA] at hA
  simp only [] at hA
  have happ := Lex.Concat.tokenize_append lo A B st hclean
  unfold FirstCreate at hB
  cases htB : Lex.tokenize lo B with
  | error loc e =>
    rw [htB] at happ
    obtain ⟨loc', hl⟩ := happ
    rw [hl]; rfl
  | missing w =>
    rw [htB] at happ
    simp only [] at happ
    rw [happ]; rfl
  | ok tsB =>
    rw [htB] at happ hB
    obtain ⟨ts, hts, hmap⟩ := happ
    rw [hts]
    simp only []
    cases tsB with
    | nil => exact hB.elim
    | cons y Y =>
      simp only [] at hB
      exact parseToks_append rv st.toks.reverse eA (y :: Y) ts dA
        ⟨rest.reverse, p, q, by simp [htoks], hp, hq⟩ ⟨y, Y, rfl, hB⟩ hmap hA hcreates

end Pipeline.Concat
end Sqlgrep
