import SqlgrepModel.Lemmas.AggPermSafe
import SqlgrepModel.Lemmas.RealSums
/-
C15, input split, with the per-part summaries NAMED and carried to the executed batch run.

`partSummaries O q r` = the keyed summaries (`keyedSummaries`: per group, one `Summary` per aggregate slot) of the rows of
`r` that pass WHERE — what one part of the input has to remember. `Lemmas/AggSummaryTable.lean` `table_concat_merge_all`
obtains exactly these for the two parts and for the whole and then forgets them behind `∃ S₁ S₂`. Here:

* `table_concat_merge_summaries`: the same statement with the summaries named — `Sᵢ = partSummaries O q rᵢ`, the summaries of
  the whole are `mergeSummaries q S₁ S₂` (= `mergeG (combineS (slotList q)) S₁ S₂`), and the three tables are
  `tableOfSummaries` of them;
* `specBatch_concat_merge_summaries` → `runBatch_concat_merge_summaries`: for an aggregate statement without join and file
  lists `f`, `f₁`, `f₂` with `f.flatten = f₁.flatten ++ f₂.flatten` (one file cut in two, two files, …): what `runBatch` prints
  for `f` is the table of the merged summaries of the two parts, which in turn determine what it prints for the parts;
* decidable sufficient conditions for the proviso `SplitSafe` (`splitSafe_of_ints`, `splitSafeAllB_sound`).
-/
set_option linter.unusedSimpArgs false
namespace Sqlgrep
open Value Spec.Agg

/-- **what a part of the input remembers**: the keyed summaries of its admitted rows — per group (ascending keys), one
summary per aggregate slot (count; set of distinct values; sum; sum and count; sum, sum of squares and count; extreme;
conjunction / disjunction; sorted multiset). `none`: WHERE / a key / an argument has no value on some row, or a sum is
not fixed. -/
def partSummaries (O : Oracles) (q : AggStmt) (envs : List Env) : Option (List (List Value × List Summary)) :=
  (keyedRows O q envs).bind (keyedSummaries O q)

/-- the key-wise combination of the keyed summaries of two parts: the groups are the union (ascending); a group present in
both parts combines slot by slot (`combine`), a group present in one part keeps its summaries -/
abbrev mergeSummaries (q : AggStmt) (S₁ S₂ : List (List Value × List Summary)) : List (List Value × List Summary) :=
  mergeG (combineS (slotList q)) S₁ S₂

/-- the specification's table is the table of the part's summaries -/
theorem table_partSummaries {O : Oracles} {q : AggStmt} (hwf : StmtWF q)
    (hOI : ∀ kind ∈ slotKinds q, orderInsensitive kind = true) {envs : List Env} {t : List (List Value)}
    (h : table O q envs = some t) :
    ∃ S, partSummaries O q envs = some S ∧ tableOfSummaries O q S = some t := by
  obtain ⟨rows, S, hk, _, hS, ht⟩ := summaries_of_table hwf hOI h
  exact ⟨S, by simp only [partSummaries, hk, Option.bind_some, hS], ht⟩

/-- **`agg_concat_merge_all` with the summaries named.** The admitted rows of the parts are `k₁`, `k₂`, those of the whole
`k₁ ++ k₂`; their keyed summaries are `S₁`, `S₂` and `mergeSummaries q S₁ S₂`; the three tables are `tableOfSummaries` of
these. -/
theorem table_concat_merge_summaries {O : Oracles} {q : AggStmt} (hwf : StmtWF q)
    (hOI : ∀ kind ∈ slotKinds q, orderInsensitive kind = true) (r₁ r₂ : List Env) {t t₁ t₂ : List (List Value)}
    (h : table O q (r₁ ++ r₂) = some t) (h₁ : table O q r₁ = some t₁) (h₂ : table O q r₂ = some t₂)
    (hsafe : ∀ k₁ k₂, keyedRows O q r₁ = some k₁ → keyedRows O q r₂ = some k₂ →
      ∀ k, SplitSafe O q (rowsOfKey k k₁) (rowsOfKey k k₂)) :
    ∃ k₁ k₂ S₁ S₂, keyedRows O q r₁ = some k₁ ∧ keyedRows O q r₂ = some k₂ ∧ keyedRows O q (r₁ ++ r₂) = some (k₁ ++ k₂) ∧
      keyedSummaries O q k₁ = some S₁ ∧ keyedSummaries O q k₂ = some S₂ ∧
      keyedSummaries O q (k₁ ++ k₂) = some (mergeSummaries q S₁ S₂) ∧
      tableOfSummaries O q S₁ = some t₁ ∧ tableOfSummaries O q S₂ = some t₂ ∧
      tableOfSummaries O q (mergeSummaries q S₁ S₂) = some t := by
  obtain ⟨k, S, hk, hex, hS, ht⟩ := summaries_of_table hwf hOI h
  obtain ⟨k₁, S₁, hk₁, _, hS₁, ht₁⟩ := summaries_of_table hwf hOI h₁
  obtain ⟨k₂, S₂, hk₂, _, hS₂, ht₂⟩ := summaries_of_table hwf hOI h₂
  have happ := keyedRows_append O q r₁ r₂ hk₁ hk₂
  have := happ
  rw [hk] at this
  simp only [Option.some.injEq] at this
  subst this
  have hm : S = mergeSummaries q S₁ S₂ :=
    keyedG_concat k₁ k₂ hex hS hS₁ hS₂ (fun key a b r ha hb hr =>
      summaryRow_append key _ _ (hsafe k₁ k₂ hk₁ hk₂ key) ha hb hr)
  subst hm
  exact ⟨k₁, k₂, S₁, S₂, hk₁, hk₂, happ, hS₁, hS₂, hS, ht₁, ht₂, ht⟩

/-- the same without `∃`: the summaries of the whole ARE the merged summaries of the parts, and each table is the table
of its summaries -/
theorem partSummaries_concat {O : Oracles} {q : AggStmt} (hwf : StmtWF q)
    (hOI : ∀ kind ∈ slotKinds q, orderInsensitive kind = true) (r₁ r₂ : List Env) {t t₁ t₂ : List (List Value)}
    (h : table O q (r₁ ++ r₂) = some t) (h₁ : table O q r₁ = some t₁) (h₂ : table O q r₂ = some t₂)
    (hsafe : ∀ k₁ k₂, keyedRows O q r₁ = some k₁ → keyedRows O q r₂ = some k₂ →
      ∀ k, SplitSafe O q (rowsOfKey k k₁) (rowsOfKey k k₂)) :
    partSummaries O q (r₁ ++ r₂) =
      (partSummaries O q r₁).bind (fun S₁ => (partSummaries O q r₂).map (fun S₂ => mergeSummaries q S₁ S₂)) ∧
    table O q r₁ = (partSummaries O q r₁).bind (tableOfSummaries O q) ∧
    table O q r₂ = (partSummaries O q r₂).bind (tableOfSummaries O q) ∧
    table O q (r₁ ++ r₂) = (partSummaries O q (r₁ ++ r₂)).bind (tableOfSummaries O q) := by
  obtain ⟨k₁, k₂, S₁, S₂, hk₁, hk₂, hk, hS₁, hS₂, hS, ht₁, ht₂, ht⟩ :=
    table_concat_merge_summaries hwf hOI r₁ r₂ h h₁ h₂ hsafe
  simp only [partSummaries, hk₁, hk₂, hk, hS₁, hS₂, hS, Option.bind_some, Option.map_some, ht₁, ht₂, ht, h, h₁, h₂,
    and_self]

/-! ### the deviation class of the whole follows from the classes of the parts -/

theorem collect_map_isSome {α β : Type} {l : List α} {f : α → Option β} {r : List β} (h : collect (l.map f) = some r) :
    ∀ x ∈ l, (f x).isSome = true := by
  induction l generalizing r with
  | nil => intro x hx; cases hx
  | cons a rest ih =>
    simp only [List.map_cons] at h
    cases hf : f a with
    | none => rw [hf] at h; simp [collect] at h
    | some b =>
      rw [hf] at h
      obtain ⟨r', hr', _⟩ := collect_eq_some_cons h
      intro x hx
      rcases List.mem_cons.mp hx with rfl | hx
      · rw [hf]; rfl
      · exact ih hr' x hx

/-- where the specification's table exists, every aggregate of the statement has its argument values on the rows of every
group -/
theorem arguments_of_table {O : Oracles} {q : AggStmt} (hwf : StmtWF q)
    (hOI : ∀ kind ∈ slotKinds q, orderInsensitive kind = true) {envs : List Env} {t : List (List Value)}
    (h : table O q envs = some t) {rows : List (List Value × Env)} (hr : keyedRows O q envs = some rows) :
    ∀ r ∈ rows, ∀ kind ∈ slotKinds q, isKeyKind kind = false → (arguments O q kind (rowsOfKey r.1 rows)).isSome = true := by
  obtain ⟨rows', S, hk, hex, hS, _⟩ := summaries_of_table hwf hOI h
  rw [hr] at hk
  cases hk
  obtain ⟨_, hl, _⟩ := keyedG_lookup hS hex
  intro r hrm kind hkind hnk
  have hmem : r.1 ∈ distinctKeys (rows.map (·.1)) := (distinctKeys_mem_iff hex r.1).mpr (List.mem_map.mpr ⟨r, hrm, rfl⟩)
  obtain ⟨he, hs⟩ := hl r.1 hmem
  rw [he] at hs
  cases hrow : summaryRow O q r.1 (rowsOfKey r.1 rows) with
  | none => rw [hrow] at hs; cases hs
  | some ss =>
    unfold summaryRow at hrow
    have hall := collect_map_isSome hrow
    have hslot : ∃ s ∈ slotList q, s.2 = kind := by
      simp only [slotKinds, List.mem_append, List.mem_map] at hkind
      simp only [slotList, List.mem_append, List.mem_map]
      rcases hkind with ⟨it, hit, rfl⟩ | ⟨p, hp, rfl⟩
      · exact ⟨(true, it.kind), Or.inl ⟨it, hit, rfl⟩, rfl⟩
      · exact ⟨(false, p.2), Or.inr ⟨p, hp, rfl⟩, rfl⟩
    obtain ⟨s, hsm, rfl⟩ := hslot
    have := hall s hsm
    unfold slotSummary at this
    simp only [hnk, Bool.and_false, Bool.false_eq_true, if_false] at this
    cases ha : arguments O q s.2 (rowsOfKey r.1 rows) with
    | none => rw [ha] at this; cases this
    | some vs => rfl

theorem isEmpty_append_eq {α : Type} (a b : List α) : (a ++ b).isEmpty = (a.isEmpty && b.isEmpty) := by
  cases a <;> simp

theorem createsEntry_append_left (k : AggKind) (v1 v2 : List Value) (h : createsEntry k v1 = true) :
    createsEntry k (v1 ++ v2) = true := by
  cases k with
  | groupKey e c => simp [createsEntry] at h
  | count c d =>
    cases c <;> simp only [createsEntry, nonNull, List.filter_append, isEmpty_append_eq, Bool.not_and, Bool.or_eq_true] at h ⊢ <;>
      exact Or.inl h
  | _ =>
    simp only [createsEntry, nonNull, List.filter_append, isEmpty_append_eq, Bool.not_and, Bool.or_eq_true] at h ⊢
    exact Or.inl h

theorem createsEntry_append_right (k : AggKind) (v1 v2 : List Value) (h : createsEntry k v2 = true) :
    createsEntry k (v1 ++ v2) = true := by
  cases k with
  | groupKey e c => simp [createsEntry] at h
  | count c d =>
    cases c <;> simp only [createsEntry, nonNull, List.filter_append, isEmpty_append_eq, Bool.not_and, Bool.or_eq_true] at h ⊢ <;>
      exact Or.inr h
  | _ =>
    simp only [createsEntry, nonNull, List.filter_append, isEmpty_append_eq, Bool.not_and, Bool.or_eq_true] at h ⊢
    exact Or.inr h

theorem createsEntry_not_key {k : AggKind} {vs : List Value} (h : createsEntry k vs = true) : isKeyKind k = false := by
  cases k <;> first | rfl | simp [createsEntry] at h

/-- a group that is visible (D10) in a part is visible in the whole, when the arguments of the whole group exist -/
theorem groupVisible_append {O : Oracles} {q : AggStmt} (g1 g2 : List Env)
    (hargs : ∀ kind ∈ slotKinds q, isKeyKind kind = false → (arguments O q kind (g1 ++ g2)).isSome = true)
    (h : groupVisible O q g1 = true ∨ groupVisible O q g2 = true) : groupVisible O q (g1 ++ g2) = true := by
  unfold groupVisible at h ⊢
  simp only [List.any_eq_true] at h ⊢
  have key : ∀ kind ∈ slotKinds q, ∀ vs, ((arguments O q kind g1 = some vs ∨ arguments O q kind g2 = some vs) ∧ createsEntry kind vs = true) →
      (match arguments O q kind (g1 ++ g2) with
        | some vs => createsEntry kind vs
        | none => false) = true := by
    intro kind hkind vs ⟨hor, hc⟩
    have hs := hargs kind hkind (createsEntry_not_key hc)
    cases hw : arguments O q kind (g1 ++ g2) with
    | none => rw [hw] at hs; cases hs
    | some ws =>
      simp only
      unfold arguments at hw
      rw [List.map_append] at hw
      obtain ⟨x, y, hx, hy, rfl⟩ := collect_append_inv hw
      rcases hor with h1 | h2
      · have : x = vs := Option.some.inj (hx.symm.trans h1)
        subst this
        exact createsEntry_append_left kind x y hc
      · have : y = vs := Option.some.inj (hy.symm.trans h2)
        subst this
        exact createsEntry_append_right kind x y hc
  rcases h with ⟨kind, hkind, h⟩ | ⟨kind, hkind, h⟩
  · refine ⟨kind, hkind, ?_⟩
    cases h1 : arguments O q kind g1 with
    | none => rw [h1] at h; cases h
    | some vs => rw [h1] at h; exact key kind hkind vs ⟨Or.inl h1, h⟩
  · refine ⟨kind, hkind, ?_⟩
    cases h2 : arguments O q kind g2 with
    | none => rw [h2] at h; cases h
    | some vs => rw [h2] at h; exact key kind hkind vs ⟨Or.inr h2, h⟩

/-- an empty deviation class, taken apart: every group of the admitted rows is visible -/
theorem visible_of_class_empty {O : Oracles} {q : AggStmt} {envs : List Env} {rows : List (List Value × Env)}
    (hr : keyedRows O q envs = some rows) (hc : deviationClass O q envs = "") :
    ∀ r ∈ rows, groupVisible O q (rowsOfKey r.1 rows) = true := by
  unfold deviationClass at hc
  simp only [hr] at hc
  split at hc
  · exact absurd hc (by decide)
  · split at hc
    · exact absurd hc (by decide)
    · rename_i _ hv
      have hv' : (groups rows).any (fun kg => !groupVisible O q kg.2) = false := by
        simpa using hv
      rw [groups_any_eq (fun g => !groupVisible O q g)] at hv'
      intro r hrm
      have := List.any_eq_false.mp hv' r hrm
      simpa using this

/-- **the deviation class (D10 / D15) of the whole is empty when the classes of both parts are** — for statements whose
aggregates are order-insensitive, whenever the specification's table of the whole exists: a group of the whole has rows in
some part, is visible there, and an aggregate that creates an entry for a part of a group creates one for the group -/
theorem deviationClass_concat {O : Oracles} {q : AggStmt} (hwf : StmtWF q)
    (hOI : ∀ kind ∈ slotKinds q, orderInsensitive kind = true) {e₁ e₂ : List Env} {t : List (List Value)}
    (h : table O q (e₁ ++ e₂) = some t) {k₁ k₂ : List (List Value × Env)}
    (hk₁ : keyedRows O q e₁ = some k₁) (hk₂ : keyedRows O q e₂ = some k₂)
    (hc₁ : deviationClass O q e₁ = "") (hc₂ : deviationClass O q e₂ = "") : deviationClass O q (e₁ ++ e₂) = "" := by
  have hk := keyedRows_append O q e₁ e₂ hk₁ hk₂
  have hargs := arguments_of_table hwf hOI h hk
  have hv₁ := visible_of_class_empty hk₁ hc₁
  have hv₂ := visible_of_class_empty hk₂ hc₂
  have hvis : ∀ r ∈ k₁ ++ k₂, groupVisible O q (rowsOfKey r.1 (k₁ ++ k₂)) = true := by
    intro r hr
    have ha := hargs r hr
    rw [rowsOfKey_append] at ha ⊢
    apply groupVisible_append _ _ ha
    rcases List.mem_append.mp hr with h1 | h2
    · exact Or.inl (hv₁ r h1)
    · exact Or.inr (hv₂ r h2)
  unfold deviationClass
  simp only [hk]
  have hA : (groups (k₁ ++ k₂)).any (fun (x : List Value × List Env) => match x with | (_, g) => arrayAggFirstNull O q g) = false := by
    apply List.any_eq_false.mpr
    intro kg _
    simp [arrayAggFirstNull_false hOI]
  have hV : (groups (k₁ ++ k₂)).any (fun (x : List Value × List Env) => match x with | (_, g) => !groupVisible O q g) = false := by
    have := groups_any_eq (fun g => !groupVisible O q g) (k₁ ++ k₂)
    rw [show (fun (x : List Value × List Env) => match x with | (_, g) => !groupVisible O q g) =
      (fun kg => !groupVisible O q kg.2) from rfl, this]
    apply List.any_eq_false.mpr
    intro r hr
    simp [hvis r hr]
  rw [hA, hV]
  rfl

/-! ### the executed batch run -/

/-- what a batch run of an aggregate statement that ends well hands back: the table printed once, every line counted -/
def tableOut (q : AggStmt) (t : List (List Value)) (total : Nat) : RunOut :=
  { printed := printResult { columns := q.items.map (·.name), rows := t } true, totalLines := total }

/-- a specification answer for a batch run without join, taken apart -/
theorem batch_nojoin_inv {O : Oracles} {qy : Query} {q : AggStmt} (hj : qy.join = none) {joined : List FileLine}
    {files : List (List FileLine)} {a : RunOut × String} (h : Spec.Agg.batch O qy q joined files = some a) :
    ∃ t, table O q (envsOf qy.table files.flatten) = some t ∧
      a = (tableOut q t files.flatten.length, deviationClass O q (envsOf qy.table files.flatten)) := by
  unfold Spec.Agg.batch at h
  simp only [hj] at h
  split at h
  · simp at h
  · unfold Spec.Agg.batchOver at h
    cases ht : table O q (envsOf qy.table files.flatten) with
    | none => simp [ht] at h
    | some t =>
      simp only [ht, Option.some.injEq] at h
      exact ⟨t, rfl, h.symm⟩

/-- the specification's answer depends on the file list through the list of all lines only -/
theorem batch_flatten_congr (O : Oracles) (qy : Query) (q : AggStmt) (joined : List FileLine) {f g : List (List FileLine)}
    (h : f.flatten = g.flatten) : Spec.Agg.batch O qy q joined f = Spec.Agg.batch O qy q joined g := by
  unfold Spec.Agg.batch
  simp only [h]

/-- **input split at the level of the specification's batch answer**, summaries named: for an aggregate statement without
join whose aggregates are order-insensitive and file lists `f`, `f₁`, `f₂` such that the lines of `f` are the lines of `f₁`
followed by the lines of `f₂`: whenever the specification answers for all three and `SplitSafe` holds per group, the answer
for `f` is the table of the merged summaries of the two parts (and all lines counted), the answers for the parts are the
tables of their summaries -/
theorem specBatch_concat_merge_summaries {O : Oracles} {qy : Query} {q : AggStmt} (hwf : StmtWF q) (hj : qy.join = none)
    (hOI : ∀ kind ∈ slotKinds q, orderInsensitive kind = true) (joined : List FileLine)
    {f f₁ f₂ : List (List FileLine)} (hf : f.flatten = f₁.flatten ++ f₂.flatten) {a a₁ a₂ : RunOut × String}
    (h : Spec.Agg.batch O qy q joined f = some a) (h₁ : Spec.Agg.batch O qy q joined f₁ = some a₁)
    (h₂ : Spec.Agg.batch O qy q joined f₂ = some a₂)
    (hsafe : ∀ k₁ k₂, keyedRows O q (envsOf qy.table f₁.flatten) = some k₁ → keyedRows O q (envsOf qy.table f₂.flatten) = some k₂ →
      ∀ k, SplitSafe O q (rowsOfKey k k₁) (rowsOfKey k k₂)) :
    ∃ S₁ S₂ t₁ t₂ t,
      partSummaries O q (envsOf qy.table f₁.flatten) = some S₁ ∧ partSummaries O q (envsOf qy.table f₂.flatten) = some S₂ ∧
      partSummaries O q (envsOf qy.table f.flatten) = some (mergeSummaries q S₁ S₂) ∧
      tableOfSummaries O q S₁ = some t₁ ∧ tableOfSummaries O q S₂ = some t₂ ∧
      tableOfSummaries O q (mergeSummaries q S₁ S₂) = some t ∧
      table O q (envsOf qy.table f₁.flatten) = some t₁ ∧ table O q (envsOf qy.table f₂.flatten) = some t₂ ∧
      table O q (envsOf qy.table f.flatten) = some t ∧
      a₁.1 = tableOut q t₁ f₁.flatten.length ∧ a₂.1 = tableOut q t₂ f₂.flatten.length ∧
      a.1 = tableOut q t (f₁.flatten.length + f₂.flatten.length) := by
  obtain ⟨t, ht, ha⟩ := batch_nojoin_inv hj h
  obtain ⟨t₁, ht₁, ha₁⟩ := batch_nojoin_inv hj h₁
  obtain ⟨t₂, ht₂, ha₂⟩ := batch_nojoin_inv hj h₂
  have hlen : f.flatten.length = f₁.flatten.length + f₂.flatten.length := by rw [hf, List.length_append]
  rw [hf, envsOf_append] at ht
  obtain ⟨k₁, k₂, S₁, S₂, hk₁, hk₂, hk, hS₁, hS₂, hS, hT₁, hT₂, hT⟩ :=
    table_concat_merge_summaries hwf hOI _ _ ht ht₁ ht₂ hsafe
  refine ⟨S₁, S₂, t₁, t₂, t, ?_, ?_, ?_, hT₁, hT₂, hT, ht₁, ht₂, ?_, ?_, ?_, ?_⟩
  · simp only [partSummaries, hk₁, Option.bind_some, hS₁]
  · simp only [partSummaries, hk₂, Option.bind_some, hS₂]
  · rw [hf, envsOf_append]; simp only [partSummaries, hk, Option.bind_some, hS]
  · rw [hf, envsOf_append]; exact ht
  · rw [ha₁]
  · rw [ha₂]
  · rw [ha, hlen]

/-! ### statements with COUNT(*): no group without a value entry, in any input (so no cut of an input is excluded) -/

/-- COUNT(*) has an argument list for every group (one NULL per row), whatever the rows -/
theorem arguments_countStar (O : Oracles) (q : AggStmt) (g : List Env) :
    arguments O q (.count none false) g = some (g.map (fun _ => Value.null)) := by
  unfold arguments
  induction g with
  | nil => rfl
  | cons e g ih =>
    simp only [List.map_cons, argument, okOf, Bool.false_eq_true, if_false, collect_cons_some] at ih ⊢
    rw [ih]; rfl

/-- a group with a row is visible (outside D10) as soon as the statement has COUNT(*) among its aggregates -/
theorem groupVisible_of_countStar {O : Oracles} {q : AggStmt} (hc : AggKind.count none false ∈ slotKinds q) {g : List Env}
    (hg : g ≠ []) : groupVisible O q g = true := by
  unfold groupVisible
  apply List.any_eq_true.mpr
  refine ⟨_, hc, ?_⟩
  rw [arguments_countStar]
  cases g with
  | nil => exact absurd rfl hg
  | cons e g => rfl

/-- **no input falls into D10 / D15 for an order-insensitive statement with COUNT(*)**: the deviation class is empty for
every list of rows (no hypothesis on the rows, the keys or the values) -/
theorem deviationClass_empty_of_countStar {O : Oracles} {q : AggStmt}
    (hOI : ∀ kind ∈ slotKinds q, orderInsensitive kind = true) (hc : AggKind.count none false ∈ slotKinds q)
    (envs : List Env) : deviationClass O q envs = "" := by
  unfold deviationClass
  cases hk : keyedRows O q envs with
  | none => rfl
  | some rows =>
    have h15 : (groups rows).any (fun (x : List Value × List Env) => arrayAggFirstNull O q x.2) = false :=
      List.any_eq_false.mpr (fun x _ => by simp [arrayAggFirstNull_false hOI x.2])
    have h10 : (groups rows).any (fun (x : List Value × List Env) => !groupVisible O q x.2) = false := by
      apply List.any_eq_false.mpr
      intro x hx
      obtain ⟨k, hkm, rfl⟩ := List.mem_map.mp hx
      have hne : rowsOfKey k rows ≠ [] := rowsOfKey_ne_nil (distinctKeys_sub _ k hkm)
      simp [groupVisible_of_countStar hc hne]
    simp only [h15, h10, Bool.false_eq_true, if_false]

/-- the class the specification reports for a batch run (no join) of such a statement is empty, whatever the files -/
theorem specBatch_class_of_countStar {O : Oracles} {qy : Query} {q : AggStmt} (hj : qy.join = none)
    (hOI : ∀ kind ∈ slotKinds q, orderInsensitive kind = true) (hc : AggKind.count none false ∈ slotKinds q)
    {joined : List FileLine} {files : List (List FileLine)} {ro : RunOut} {c : String}
    (h : Spec.Agg.batch O qy q joined files = some (ro, c)) : c = "" := by
  obtain ⟨_, _, ha⟩ := batch_nojoin_inv hj h
  rw [(Prod.mk.inj ha).2]; exact deviationClass_empty_of_countStar hOI hc _

/-- **the class of the whole is not a hypothesis**: if the specification answers for `f`, and answers with an empty deviation
class for the two parts, its class for `f` is empty as well (`deviationClass_concat`) -/
theorem specBatch_concat_class {O : Oracles} {qy : Query} {q : AggStmt} (hwf : StmtWF q) (hj : qy.join = none)
    (hOI : ∀ kind ∈ slotKinds q, orderInsensitive kind = true) (joined : List FileLine)
    {f f₁ f₂ : List (List FileLine)} (hf : f.flatten = f₁.flatten ++ f₂.flatten) {ro ro₁ ro₂ : RunOut} {cls : String}
    (h : Spec.Agg.batch O qy q joined f = some (ro, cls)) (h₁ : Spec.Agg.batch O qy q joined f₁ = some (ro₁, ""))
    (h₂ : Spec.Agg.batch O qy q joined f₂ = some (ro₂, "")) : cls = "" := by
  obtain ⟨t, ht, ha⟩ := batch_nojoin_inv hj h
  obtain ⟨t₁, ht₁, ha₁⟩ := batch_nojoin_inv hj h₁
  obtain ⟨t₂, ht₂, ha₂⟩ := batch_nojoin_inv hj h₂
  obtain ⟨k₁, hk₁⟩ := keyedRows_of_table ht₁
  obtain ⟨k₂, hk₂⟩ := keyedRows_of_table ht₂
  have c : cls = deviationClass O q (envsOf qy.table f.flatten) := (Prod.mk.inj ha).2
  have c₁ : deviationClass O q (envsOf qy.table f₁.flatten) = "" := (Prod.mk.inj ha₁).2.symm
  have c₂ : deviationClass O q (envsOf qy.table f₂.flatten) = "" := (Prod.mk.inj ha₂).2.symm
  rw [c, hf, envsOf_append]
  rw [hf, envsOf_append] at ht
  exact deviationClass_concat hwf hOI ht hk₁ hk₂ c₁ c₂

/-- **the executed batch run over a split input** (`runBatch` = the `FileExecutor` loop the driver runs): under the
hypotheses of `specBatch_concat_merge_summaries` with empty deviation classes (C04: D10 / D15) for the two PARTS (the class
of the whole is then empty too: `specBatch_concat_class`), what `runBatch` prints for
the whole is the table of the merged summaries of the two parts, every line counted; and what it prints for each part is the
table of that part's summaries -/
theorem runBatch_concat_merge_summaries {O : Oracles} {qy : Query} {q : AggStmt} (hq : qy.stmt = .aggregate q) (hwf : StmtWF q)
    (hj : qy.join = none) (hOI : ∀ kind ∈ slotKinds q, orderInsensitive kind = true) (joined : List FileLine)
    {f f₁ f₂ : List (List FileLine)} (hf : f.flatten = f₁.flatten ++ f₂.flatten) {ro ro₁ ro₂ : RunOut} {cls : String}
    (h : Spec.Agg.batch O qy q joined f = some (ro, cls)) (h₁ : Spec.Agg.batch O qy q joined f₁ = some (ro₁, ""))
    (h₂ : Spec.Agg.batch O qy q joined f₂ = some (ro₂, ""))
    (hsafe : ∀ k₁ k₂, keyedRows O q (envsOf qy.table f₁.flatten) = some k₁ → keyedRows O q (envsOf qy.table f₂.flatten) = some k₂ →
      ∀ k, SplitSafe O q (rowsOfKey k k₁) (rowsOfKey k k₂)) :
    ∃ S₁ S₂ t₁ t₂ t,
      partSummaries O q (envsOf qy.table f₁.flatten) = some S₁ ∧ partSummaries O q (envsOf qy.table f₂.flatten) = some S₂ ∧
      tableOfSummaries O q S₁ = some t₁ ∧ tableOfSummaries O q S₂ = some t₂ ∧
      tableOfSummaries O q (mergeSummaries q S₁ S₂) = some t ∧
      runBatch O qy joined f₁ none = tableOut q t₁ f₁.flatten.length ∧
      runBatch O qy joined f₂ none = tableOut q t₂ f₂.flatten.length ∧
      runBatch O qy joined f none = tableOut q t (f₁.flatten.length + f₂.flatten.length) := by
  have hcls := specBatch_concat_class hwf hj hOI joined hf h h₁ h₂
  subst hcls
  obtain ⟨S₁, S₂, t₁, t₂, t, hS₁, hS₂, _, hT₁, hT₂, hT, _, _, _, e₁, e₂, e⟩ :=
    specBatch_concat_merge_summaries hwf hj hOI joined hf h h₁ h₂ hsafe
  refine ⟨S₁, S₂, t₁, t₂, t, hS₁, hS₂, hT₁, hT₂, hT, ?_, ?_, ?_⟩
  · rw [batch_refines_spec_nojoin hq hwf hj joined f₁ h₁]; exact e₁
  · rw [batch_refines_spec_nojoin hq hwf hj joined f₂ h₂]; exact e₂
  · rw [batch_refines_spec_nojoin hq hwf hj joined f h]; exact e

/-! ### decidable sufficient conditions for `SplitSafe` -/

/-- NULL or an INT -/
def intOrNull : Value → Bool
  | .null => true
  | .int _ => true
  | _ => false

/-- the non-NULL argument values of the rows of one group of `keyed` are INTs when every row's argument is NULL or an INT -/
theorem nonNull_args_ints {O : Oracles} {q : AggStmt} {kind : AggKind} {keyed : List (List Value × Env)}
    (hv : ∀ r ∈ keyed, (okOf (argument O q r.2 kind)).all intOrNull = true) (k : List Value) {vs : List Value}
    (hargs : arguments O q kind (rowsOfKey k keyed) = some vs) : ∀ v ∈ nonNull vs, ∃ i, v = .int i := by
  intro v hv'
  simp only [nonNull, List.mem_filter, Bool.not_eq_true'] at hv'
  have := collect_mem hargs v hv'.1
  simp only [List.mem_map] at this
  obtain ⟨env, henv, he⟩ := this
  simp only [rowsOfKey, List.mem_map, List.mem_filter] at henv
  obtain ⟨r, ⟨hr, _⟩, rfl⟩ := henv
  have hs := hv r hr
  rw [he] at hs
  simp only [Option.all_some] at hs
  cases v with
  | null => simp [Value.isNull] at hv'
  | int i => exact ⟨i, rfl⟩
  | real _ => simp [intOrNull] at hs
  | bool _ => simp [intOrNull] at hs
  | text _ => simp [intOrNull] at hs
  | array _ _ => simp [intOrNull] at hs
  | timestamp _ _ _ => simp [intOrNull] at hs
  | interval _ => simp [intOrNull] at hs

/-- **a checkable sufficient condition for `SplitSafe`, INT arguments**: every aggregate's argument on every admitted row
of both parts is NULL or an INT (of any size: the split needs no bound — an overflow shows as a missing table) -/
theorem splitSafe_of_ints {O : Oracles} {q : AggStmt} {k₁ k₂ : List (List Value × Env)}
    (hv₁ : ∀ kind ∈ slotKinds q, ∀ r ∈ k₁, (okOf (argument O q r.2 kind)).all intOrNull = true)
    (hv₂ : ∀ kind ∈ slotKinds q, ∀ r ∈ k₂, (okOf (argument O q r.2 kind)).all intOrNull = true) :
    ∀ k, SplitSafe O q (rowsOfKey k k₁) (rowsOfKey k k₂) := by
  intro k kind hkind v1 v2 h1 h2
  have i1 := nonNull_args_ints (hv₁ kind hkind) k h1
  have i2 := nonNull_args_ints (hv₂ kind hkind) k h2
  refine ⟨fun _ => splitExact_of_ints i1 i2, fun _ => valuesExact_of_ints ?_⟩
  intro v hv
  rw [nonNull_append, List.mem_append] at hv
  rcases hv with hv | hv
  · exact i1 v hv
  · exact i2 v hv

/-- decidable form of `RealSplitExact`: the REAL addends of both parts together have exactly representable sums -/
def realSplitExactB (x1 x2 : List Value) : Bool :=
  match reals x1, reals x2 with
  | some r1, some r2 => decide (ExactSums (r1 ++ r2))
  | _, _ => true

theorem realSplitExactB_sound {x1 x2 : List Value} (h : realSplitExactB x1 x2 = true) : RealSplitExact x1 x2 := by
  intro r1 r2 h1 h2
  simp only [realSplitExactB, h1, h2, decide_eq_true_eq] at h
  exact realAddLaws_of_exactSums h

/-- decidable form of `SplitExact` (addends and their squares) -/
def splitExactB (x1 x2 : List Value) : Bool :=
  realSplitExactB x1 x2 &&
  match squaresOf x1, squaresOf x2 with
  | some s1, some s2 => realSplitExactB s1 s2
  | _, _ => true

theorem splitExactB_sound {x1 x2 : List Value} (h : splitExactB x1 x2 = true) : SplitExact x1 x2 := by
  simp only [splitExactB, Bool.and_eq_true] at h
  refine ⟨realSplitExactB_sound h.1, ?_⟩
  intro s1 s2 h1 h2
  have := h.2
  simp only [h1, h2] at this
  exact realSplitExactB_sound this

def isPercentile : AggKind → Bool
  | .percentile _ _ => true
  | _ => false

/-- decidable form of `SplitSafe` for one group split into `g1`, `g2` -/
def splitSafeB (O : Oracles) (q : AggStmt) (g1 g2 : List Env) : Bool :=
  (slotKinds q).all (fun kind =>
    match arguments O q kind g1, arguments O q kind g2 with
    | some v1, some v2 =>
      (!usesSums kind || splitExactB (nonNull v1) (nonNull v2)) &&
      (!isPercentile kind || (nonNull (v1 ++ v2)).all simpleValue)
    | _, _ => true)

theorem valuesExact_of_simple {xs : List Value} (h : xs.all simpleValue = true) : ValuesExact xs := by
  intro a ha b hb hab
  simp only [List.all_eq_true] at h
  exact cmp_eq_of_simple (h a ha) (h b hb) hab

theorem splitSafeB_sound {O : Oracles} {q : AggStmt} {g1 g2 : List Env} (h : splitSafeB O q g1 g2 = true) :
    SplitSafe O q g1 g2 := by
  intro kind hkind v1 v2 h1 h2
  simp only [splitSafeB, List.all_eq_true] at h
  have := h kind hkind
  simp only [h1, h2, Bool.and_eq_true, Bool.or_eq_true, Bool.not_eq_true'] at this
  refine ⟨fun hs => ?_, fun hp => ?_⟩
  · rcases this.1 with h' | h'
    · rw [hs] at h'; cases h'
    · exact splitExactB_sound h'
  · obtain ⟨e, p, rfl⟩ := hp
    rcases this.2 with h' | h'
    · simp [isPercentile] at h'
    · exact valuesExact_of_simple h'

/-- decidable form of "`SplitSafe` for every group key": checked for the keys that occur in a part (a key that occurs in
neither has the empty group in both) -/
def splitSafeAllB (O : Oracles) (q : AggStmt) (k₁ k₂ : List (List Value × Env)) : Bool :=
  splitSafeB O q [] [] && (k₁ ++ k₂).all (fun r => splitSafeB O q (rowsOfKey r.1 k₁) (rowsOfKey r.1 k₂))

/-- **a checkable sufficient condition for `SplitSafe` on every group**, REAL arguments included: for every key that occurs
in a part, the REAL addends (and their squares) of the two parts of the group together are `ExactSums`, and PERCENTILE's
values are simple (no `-0.0`, no array) -/
theorem splitSafeAllB_sound {O : Oracles} {q : AggStmt} {k₁ k₂ : List (List Value × Env)} (h : splitSafeAllB O q k₁ k₂ = true) :
    ∀ k, SplitSafe O q (rowsOfKey k k₁) (rowsOfKey k k₂) := by
  intro k
  simp only [splitSafeAllB, Bool.and_eq_true, List.all_eq_true] at h
  by_cases hk : ∃ r ∈ k₁ ++ k₂, cmpList r.1 k = .eq
  · obtain ⟨r, hr, he⟩ := hk
    rw [← rowsOfKey_congr he k₁, ← rowsOfKey_congr he k₂]
    exact splitSafeB_sound (h.2 r hr)
  · have habs : ∀ (rows : List (List Value × Env)), (∀ r ∈ rows, r ∈ k₁ ++ k₂) → rowsOfKey k rows = [] := by
      intro rows hsub
      apply rowsOfKey_nil_of_absent
      intro k' hk' he
      obtain ⟨r, hr, rfl⟩ := List.mem_map.mp hk'
      exact hk ⟨r, hsub r hr, he⟩
    rw [habs k₁ (fun r hr => List.mem_append_left _ hr), habs k₂ (fun r hr => List.mem_append_right _ hr)]
    exact splitSafeB_sound h.1

/-- the same check on two inputs: their admitted rows, then `splitSafeAllB` — the proviso `hsafe` of
`table_concat_merge_summaries` / `runBatch_concat_merge_summaries` in the form those theorems take it -/
def splitSafeInputsB (O : Oracles) (q : AggStmt) (r₁ r₂ : List Env) : Bool :=
  match keyedRows O q r₁, keyedRows O q r₂ with
  | some k₁, some k₂ => splitSafeAllB O q k₁ k₂
  | _, _ => true

theorem splitSafeInputsB_sound {O : Oracles} {q : AggStmt} {r₁ r₂ : List Env} (h : splitSafeInputsB O q r₁ r₂ = true) :
    ∀ k₁ k₂, keyedRows O q r₁ = some k₁ → keyedRows O q r₂ = some k₂ → ∀ k, SplitSafe O q (rowsOfKey k k₁) (rowsOfKey k k₂) := by
  intro k₁ k₂ h₁ h₂
  simp only [splitSafeInputsB, h₁, h₂] at h
  exact splitSafeAllB_sound h

/-- from "the specification answers with an empty deviation class" in decidable form (`RunOut` has no decidable equality) -/
theorem batch_of_class {x : Option (RunOut × String)} (h : x.map (·.2) = some "") : ∃ ro, x = some (ro, "") := by
  cases x with
  | none => cases h
  | some a =>
    obtain ⟨ro, c⟩ := a
    simp only [Option.map_some, Option.some.injEq] at h
    subst h
    exact ⟨ro, rfl⟩

end Sqlgrep
