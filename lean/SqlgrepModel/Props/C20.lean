import SqlgrepModel.Model.Lex
namespace Sqlgrep.Props.C20
open Sqlgrep Sqlgrep.Lex

/-- placeholder while the correspondence is being established -/
theorem tokenize_empty (o : Oracles) : tokens o [] = some [.eof] := rfl

end Sqlgrep.Props.C20
