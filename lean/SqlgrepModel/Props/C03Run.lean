import SqlgrepModel.Props.C03Expr
import SqlgrepModel.Props.Pipeline
/-
C03, last clause, at RUN level (audit item L5; audited with the other `Props/C03*.lean` by `./check C03`):

  "An expression that has no value on some processed row (type mismatch, unknown column, division by zero,
   arithmetic overflow) makes the query report an error rather than emit a wrong value."

`Props/C03Expr.lean` has this for the WHERE of a SELECT without a join, at the level of the file loop
(`no_value_is_reported`), and for projections at line level only. Here:

* **the run** (`line_error_is_run_error`): whatever the statement (plain, aggregate, join), wherever the line stands
  (any file, any position): if the run reaches a line — it had not stopped before — and the execution of that line is
  an error, the whole batch run `runBatch` ends with THAT error, has printed exactly what was printed before the line,
  prints no result table, and has counted the line. (`runFile_append`, `runFiles_append`: the loops over a prefix.)
  `line_failure_is_run_failure`: the same for any failure of the line (error, or one of the model's two other
  non-answers), as "the run has failed and printed nothing more".
* (a) **projections** (`projection_error_is_reported`), with or without a join (`selectOne_projection_error`);
* (c) **join statements**: a line presents one row per join partner (`join_line_envs`); WHERE / projections are evaluated
  on each joined row in partner order (`selectEnvs`); the first joined row on which WHERE or a projection has no value —
  or WHERE has a value without a truth value — is the error of the line (`joined_row_error_is_line_error`, with
  `selectOne_where_error` / `selectOne_where_type_mismatch` / `selectOne_projection_error`), and ANY joined row without
  a value makes the line fail, whatever the earlier partners gave (`any_joined_row_without_value_fails_line`): never a
  line that silently prints the other partners' rows;
* (b) **aggregate statements**: per processed row, in this order: WHERE (`aggUpdateRow_where_error`,
  `aggUpdateRow_where_type_mismatch`), the GROUP BY keys (`aggUpdateRow_group_key_error`), the arguments of the
  select-list aggregates in select-list order (`aggUpdateRow_aggregate_error` with `updateAggregates_error_at`,
  `cellStep_argument_error`, `cellStep_count_unknown_column`), the arguments of HAVING's aggregates
  (`aggUpdateRow_having_error`, `havingUpdates_error_at`): each makes the row's update, hence the line
  (`agg_row_error_is_line_error`, joins included), hence the run an error. The HAVING expression itself is evaluated
  per group when the result is built: a group on which it has no value, or a value without a truth value, makes the
  result — and the run — that error, and no table is printed (`having_error_is_result_error`,
  `final_result_error_is_run_error`, `acceptGroup_eval_error`, `acceptGroup_type_mismatch`).
* **D69 for aggregate statements, composed to the run** (audit-3 item L12): a WHERE value of an aggregate statement that is
  neither BOOLEAN nor NULL on a processed row (`agg_where_type_mismatch_is_run_error`, joins included;
  `agg_where_type_mismatch_is_reported` without a join), and a HAVING value that is neither BOOLEAN nor NULL on a group
  (`having_type_mismatch_is_run_error`), make the batch run end with the type error and print no table. WHICH cell's
  error a result table with several cells without a value reports: `Props/C04Errors.lean`.

What is NOT claimed: which of several erroneous rows / expressions is reported is the FIRST in the order above (stated
by the prefix hypotheses); an error in a row behind a reached LIMIT, or behind an earlier failure, is not reported
because the row is never processed (the hypotheses "the run had not stopped").
-/
namespace Sqlgrep.Props.C03Run
open Sqlgrep

variable (O : Oracles)

/-! ### the run: loops over a prefix -/

/-- one turn of the file loop (no interrupt) -/
theorem runFile_cons (qy : Query) (idx : JoinIndex) (w : Bool) (fl : FileLine) (rest : List FileLine) (ls : LoopState) :
    runFile O qy idx w none (fl :: rest) ls =
      if !fl.readable then { ls with out := { ls.out with error := some .failReadFile }, stop := true }
      else
        match executeLine O qy idx w ls.es fl.line with
        | .ok (es, lo) =>
          let ls' : LoopState :=
            { es := es
              out := { ls.out with totalLines := ls.out.totalLines + 1,
                                   printed := ls.out.printed ++ (match lo.result with
                                     | some r => printResult r false
                                     | none => []) }
              consumed := ls.consumed + 1, stop := ls.stop }
          if lo.reachedLimit then { ls' with stop := true } else runFile O qy idx w none rest ls'
        | o => { ls with consumed := ls.consumed + 1,
                         out := failWith { ls.out with totalLines := ls.out.totalLines + 1 } o, stop := true } := by
  rw [runFile]
  simp only [beq_iff_eq, reduceCtorEq, if_false]
  split
  · rfl
  · cases executeLine O qy idx w ls.es fl.line <;> rfl

/-- the file loop over the lines before a given line, when it did not stop there, is followed by the loop over the rest -/
theorem runFile_append (qy : Query) (idx : JoinIndex) (w : Bool) : ∀ (pre post : List FileLine) (ls : LoopState),
    (runFile O qy idx w none pre ls).stop = false →
    runFile O qy idx w none (pre ++ post) ls = runFile O qy idx w none post (runFile O qy idx w none pre ls) := by
  intro pre
  induction pre with
  | nil => intro post ls _; rfl
  | cons fl pre ih =>
    intro post ls h
    rw [List.cons_append, runFile_cons O qy idx w fl (pre ++ post), runFile_cons O qy idx w fl pre]
    rw [runFile_cons] at h
    by_cases hr : fl.readable = true
    · simp only [hr, Bool.not_true, Bool.false_eq_true, if_false] at h ⊢
      cases hx : executeLine O qy idx w ls.es fl.line with
      | ok p =>
        obtain ⟨es, lo⟩ := p
        rw [hx] at h
        simp only [] at h ⊢
        by_cases hl : lo.reachedLimit = true
        · simp [hl] at h
        · simp only [hl, Bool.false_eq_true, if_false] at h ⊢
          exact ih post _ h
      | error k => rw [hx] at h; simp at h
      | panic s => rw [hx] at h; simp at h
      | oracleMissing s => rw [hx] at h; simp at h
    · have : fl.readable = false := by simpa using hr
      simp [this] at h

/-- one turn of the loop over the files -/
theorem runFiles_cons (qy : Query) (idx : JoinIndex) (w : Bool) (f : List FileLine) (more : List (List FileLine)) (ls : LoopState) :
    runFiles O qy idx w none (f :: more) ls =
      if ls.stop || reachedLimit qy ls.es then ls
      else if (runFile O qy idx w none f ls).stop then runFile O qy idx w none f ls
      else runFiles O qy idx w none more (runFile O qy idx w none f ls) := by
  rw [runFiles]

/-- the loop over the files before a given file, when it did not stop there, is followed by the loop over the rest -/
theorem runFiles_append (qy : Query) (idx : JoinIndex) (w : Bool) : ∀ (before more : List (List FileLine)) (ls : LoopState),
    (runFiles O qy idx w none before ls).stop = false →
    runFiles O qy idx w none (before ++ more) ls = runFiles O qy idx w none more (runFiles O qy idx w none before ls) := by
  intro before
  induction before with
  | nil => intro more ls _; rfl
  | cons f before ih =>
    intro more ls h
    rw [List.cons_append, runFiles_cons O qy idx w f (before ++ more), runFiles_cons O qy idx w f before]
    rw [runFiles_cons] at h
    by_cases hc : (ls.stop || reachedLimit qy ls.es) = true
    · simp only [hc, if_true] at h ⊢
      cases more with
      | nil => rfl
      | cons g more => rw [runFiles_cons]; simp [hc]
    · simp only [hc] at h ⊢
      by_cases hs : (runFile O qy idx w none f ls).stop = true
      · simp [hs] at h
      · simp only [hs] at h ⊢
        exact ih more _ h

/-- the state a batch run is in when it has read the files `before` and, of the next file, the lines `pre` -/
def stateAt (qy : Query) (idx : JoinIndex) (w : Bool) (before : List (List FileLine)) (pre : List FileLine) : LoopState :=
  runFile O qy idx w none pre (runFiles O qy idx w none before {})

/-- the run reaches the line after `before` and `pre`: no failure, no reached LIMIT before it -/
def Reaches (qy : Query) (idx : JoinIndex) (w : Bool) (before : List (List FileLine)) (pre : List FileLine) : Prop :=
  (runFiles O qy idx w none before {}).stop = false ∧
  reachedLimit qy (runFiles O qy idx w none before {}).es = false ∧
  (stateAt O qy idx w before pre).stop = false

/-- the join index of a batch run (`execute_joined_table` before the first line) -/
def joinSetup (qy : Query) (joined : List FileLine) : Outcome JoinIndex :=
  match qy.join with
  | some j => setupJoin qy.table j (loadJoinFile j joined)
  | none => .ok []

/-- update + result per line (plain statements) or update only (aggregates): what the batch loop asks of `execute` -/
def batchMode (qy : Query) : Bool :=
  !(match qy.stmt with
    | .aggregate _ => true
    | _ => false)

theorem runBatch_eq (qy : Query) (joined : List FileLine) (files : List (List FileLine)) (idx : JoinIndex)
    (hidx : joinSetup qy joined = .ok idx) :
    runBatch O qy joined files none =
      (let ls := runFiles O qy idx (batchMode qy) none files {}
       if hasFailed ls.out then ls.out
       else match qy.stmt with
         | .aggregate q =>
           match finalResult O q ls.es with
           | .ok r => { ls.out with printed := ls.out.printed ++ printResult r true }
           | o => failWith ls.out o
         | _ => ls.out) := by
  unfold joinSetup at hidx
  unfold runBatch batchMode
  cases hj : qy.join with
  | none => rw [hj] at hidx; simp only [Outcome.ok.injEq] at hidx; subst hidx; rfl
  | some j => rw [hj] at hidx; simp only [] at hidx ⊢; rw [hidx]; rfl

/-- **a line whose execution is an error makes the RUN report that error.** Any statement (plain, aggregate, with a
join), any list of input files, the line anywhere: after the files `before` and the lines `pre` of its file. If the run
reaches the line (it did not fail and did not reach its LIMIT before) and `ExecutionEngine::execute` on it is the error
`k`, then the batch run ends with the error `k`; what it has printed is exactly what had been printed before the line
(no row for the line, none after it, no result table); the line is the last one counted. -/
theorem line_error_is_run_error (qy : Query) (joined : List FileLine) (idx : JoinIndex)
    (hidx : joinSetup qy joined = .ok idx)
    (before : List (List FileLine)) (pre : List FileLine) (fl : FileLine) (rest : List FileLine) (after : List (List FileLine))
    (hreach : Reaches O qy idx (batchMode qy) before pre) (hr : fl.readable = true) (k : ErrKind)
    (hx : executeLine O qy idx (batchMode qy) (stateAt O qy idx (batchMode qy) before pre).es fl.line = .error k) :
    let out := runBatch O qy joined (before ++ (pre ++ fl :: rest) :: after) none
    out.error = some k ∧
    out.printed = (stateAt O qy idx (batchMode qy) before pre).out.printed ∧
    out.totalLines = (stateAt O qy idx (batchMode qy) before pre).out.totalLines + 1 := by
  obtain ⟨h1, h2, h3⟩ := hreach
  have hfile : runFile O qy idx (batchMode qy) none (pre ++ fl :: rest) (runFiles O qy idx (batchMode qy) none before {}) =
      runFile O qy idx (batchMode qy) none (fl :: rest) (stateAt O qy idx (batchMode qy) before pre) :=
    runFile_append O qy idx (batchMode qy) pre (fl :: rest) _ h3
  have hline : runFile O qy idx (batchMode qy) none (fl :: rest) (stateAt O qy idx (batchMode qy) before pre) =
      { stateAt O qy idx (batchMode qy) before pre with
        consumed := (stateAt O qy idx (batchMode qy) before pre).consumed + 1
        out := { (stateAt O qy idx (batchMode qy) before pre).out with
          totalLines := (stateAt O qy idx (batchMode qy) before pre).out.totalLines + 1, error := some k }
        stop := true } := by
    simp [runFile, hr, hx, failWith]
  have hfiles : runFiles O qy idx (batchMode qy) none (before ++ (pre ++ fl :: rest) :: after) {} =
      runFile O qy idx (batchMode qy) none (fl :: rest) (stateAt O qy idx (batchMode qy) before pre) := by
    rw [runFiles_append O qy idx (batchMode qy) before _ {} h1, runFiles_cons]
    simp only [h1, h2, Bool.or_self, Bool.false_eq_true, if_false, hfile]
    simp [hline]
  intro out
  have hout : out = (runFile O qy idx (batchMode qy) none (fl :: rest) (stateAt O qy idx (batchMode qy) before pre)).out := by
    show runBatch O qy joined _ none = _
    rw [runBatch_eq O qy joined _ idx hidx]
    simp only [hfiles, hline, hasFailed, Option.isSome_some, Bool.true_or, if_true]
  rw [hout, hline]
  exact ⟨rfl, rfl, rfl⟩

/-- the same for ANY failure of the line (an error, or one of the model's other non-answers): the run has failed and
has printed nothing beyond what was printed before the line — never a row for that line -/
theorem line_failure_is_run_failure (qy : Query) (joined : List FileLine) (idx : JoinIndex)
    (hidx : joinSetup qy joined = .ok idx)
    (before : List (List FileLine)) (pre : List FileLine) (fl : FileLine) (rest : List FileLine) (after : List (List FileLine))
    (hreach : Reaches O qy idx (batchMode qy) before pre) (hr : fl.readable = true)
    (hx : ∀ r, executeLine O qy idx (batchMode qy) (stateAt O qy idx (batchMode qy) before pre).es fl.line ≠ .ok r) :
    let out := runBatch O qy joined (before ++ (pre ++ fl :: rest) :: after) none
    hasFailed out = true ∧ out.printed = (stateAt O qy idx (batchMode qy) before pre).out.printed := by
  obtain ⟨h1, h2, h3⟩ := hreach
  have hfile : runFile O qy idx (batchMode qy) none (pre ++ fl :: rest) (runFiles O qy idx (batchMode qy) none before {}) =
      runFile O qy idx (batchMode qy) none (fl :: rest) (stateAt O qy idx (batchMode qy) before pre) :=
    runFile_append O qy idx (batchMode qy) pre (fl :: rest) _ h3
  have hline : (runFile O qy idx (batchMode qy) none (fl :: rest) (stateAt O qy idx (batchMode qy) before pre)).stop = true ∧
      hasFailed (runFile O qy idx (batchMode qy) none (fl :: rest) (stateAt O qy idx (batchMode qy) before pre)).out = true ∧
      (runFile O qy idx (batchMode qy) none (fl :: rest) (stateAt O qy idx (batchMode qy) before pre)).out.printed =
        (stateAt O qy idx (batchMode qy) before pre).out.printed := by
    cases hxx : executeLine O qy idx (batchMode qy) (stateAt O qy idx (batchMode qy) before pre).es fl.line with
    | ok r => exact absurd hxx (hx r)
    | error k => simp [runFile, hr, hxx, failWith, hasFailed]
    | panic s => simp [runFile, hr, hxx, failWith, hasFailed]
    | oracleMissing s => simp [runFile, hr, hxx, failWith, hasFailed]
  have hfiles : runFiles O qy idx (batchMode qy) none (before ++ (pre ++ fl :: rest) :: after) {} =
      runFile O qy idx (batchMode qy) none (fl :: rest) (stateAt O qy idx (batchMode qy) before pre) := by
    rw [runFiles_append O qy idx (batchMode qy) before _ {} h1, runFiles_cons]
    simp only [h1, h2, Bool.or_self, Bool.false_eq_true, if_false, hfile]
    simp [hline.1]
  intro out
  have hout : out = (runFile O qy idx (batchMode qy) none (fl :: rest) (stateAt O qy idx (batchMode qy) before pre)).out := by
    show runBatch O qy joined _ none = _
    rw [runBatch_eq O qy joined _ idx hidx]
    simp only [hfiles, hline.2.1, if_true]
  rw [hout]
  exact ⟨hline.2.1, hline.2.2⟩

/-! ### (a), (c): WHERE and projections of a plain statement, on every row a line presents (one per join partner) -/

/-- WHERE without a value on a row: `SelectExecutionEngine::execute` on that row is that error -/
theorem selectOne_where_error (q : SelectStmt) (seen : List (List Value)) (env : Env) (keys : List String)
    (f : Expr) (hf : q.filter = some f) (k : ErrKind) (hk : eval O env f = .error k) :
    selectOne O q seen env keys = .error k := by
  simp [selectOne, hf, hk, bind, Outcome.bind]

/-- WHERE with a value that has no truth value (not BOOLEAN, not NULL): the type error (D69) -/
theorem selectOne_where_type_mismatch (q : SelectStmt) (seen : List (List Value)) (env : Env) (keys : List String)
    (f : Expr) (hf : q.filter = some f) (v : Value) (hv : eval O env f = .ok v) (hn : Props.C03.NoTruthValue v) :
    selectOne O q seen env keys = .error .typeError := by
  simp [selectOne, hf, hv, bind, Outcome.bind, condHolds_typeError v hn.1 hn.2]

/-- the row passes WHERE (or there is none) -/
def PassesWhere (q : SelectStmt) (env : Env) : Prop :=
  match q.filter with
  | some f => eval O env f = .ok (.bool true)
  | none => True

/-- a projected expression without a value on a row that passes WHERE: that error (the first such expression in
select-list order: `evalList`) -/
theorem selectOne_projection_error (q : SelectStmt) (seen : List (List Value)) (env : Env) (keys : List String)
    (hw : q.wildcard = false) (hpass : PassesWhere O q env) (k : ErrKind)
    (hk : evalList O env (q.projections.map (·.2)) = .error k) :
    selectOne O q seen env keys = .error k := by
  unfold PassesWhere at hpass
  cases hf : q.filter with
  | none => simp [selectOne, hf, hw, hk, bind, Outcome.bind, pure]
  | some f => rw [hf] at hpass; simp [selectOne, hf, hw, hk, hpass, bind, Outcome.bind]

/-- the rows of a line are evaluated in order; the first one that is an error is the error of all of them -/
theorem selectEnvs_error (q : SelectStmt) : ∀ (pre : List (Env × List String)) (env : Env) (keys : List String)
    (post : List (Env × List String)) (seen : List (List Value)) (acc : Option RowOut) (seen' : List (List Value))
    (acc' : Option RowOut) (k : ErrKind),
    selectEnvs O q pre seen acc = .ok (seen', acc') → selectOne O q seen' env keys = .error k →
    selectEnvs O q (pre ++ (env, keys) :: post) seen acc = .error k := by
  intro pre
  induction pre with
  | nil =>
    intro env keys post seen acc seen' acc' k h hk
    simp only [selectEnvs, Outcome.ok.injEq, Prod.mk.injEq] at h
    obtain ⟨rfl, rfl⟩ := h
    simp [selectEnvs, hk, bind, Outcome.bind]
  | cons p pre ih =>
    intro env keys post seen acc seen' acc' k h hk
    obtain ⟨e1, k1⟩ := p
    simp only [List.cons_append, selectEnvs, bind] at h ⊢
    cases h1 : selectOne O q seen e1 k1 with
    | ok r =>
      obtain ⟨s1, r1⟩ := r
      rw [h1] at h
      simp only [Outcome.bind] at h ⊢
      exact ih env keys post s1 _ seen' acc' k h hk
    | error k' => rw [h1] at h; simp [Outcome.bind] at h
    | panic s => rw [h1] at h; simp [Outcome.bind] at h
    | oracleMissing s => rw [h1] at h; simp [Outcome.bind] at h

/-- ANY row of the line on which `SelectExecutionEngine::execute` fails (whatever the DISTINCT memory) makes the whole
line fail — the rows of the partners before it are not emitted -/
theorem selectEnvs_fails_if_member_fails (q : SelectStmt) : ∀ (envs : List (Env × List String)) (env : Env) (keys : List String),
    (env, keys) ∈ envs → (∀ seen r, selectOne O q seen env keys ≠ .ok r) →
    ∀ seen acc r, selectEnvs O q envs seen acc ≠ .ok r := by
  intro envs
  induction envs with
  | nil => intro env keys hm; simp at hm
  | cons p envs ih =>
    intro env keys hm hfail seen acc r
    obtain ⟨e1, k1⟩ := p
    simp only [selectEnvs, bind]
    cases h1 : selectOne O q seen e1 k1 with
    | ok r1 =>
      obtain ⟨s1, o1⟩ := r1
      simp only [Outcome.bind]
      rcases List.mem_cons.1 hm with heq | hin
      · obtain ⟨rfl, rfl⟩ := Prod.mk.inj heq
        exact absurd h1 (hfail seen _)
      · exact ih env keys hin hfail s1 _ r
    | error k' => simp [Outcome.bind]
    | panic s => simp [Outcome.bind]
    | oracleMissing s => simp [Outcome.bind]

/-- the rows a line presents to a statement with a join: the line's row joined with each partner (the rows of the joined
file whose key equals the line's key), in joined-file order; for an OUTER join without a partner the NULL-padded row -/
theorem join_line_envs (qy : Query) (j : JoinInfo) (hj : qy.join = some j) (idx : JoinIndex) (allowOuter : Bool) (l : Line)
    (ki : Nat) (hki : indexOf? qy.table.columns j.joinerColumn = some ki) :
    lineEnvs qy idx allowOuter l =
      .ok (((joinIndexGet idx (l.row.getD ki .null)).getD
              (if j.isOuter && allowOuter then [List.replicate j.joined.columns.length .null] else [])).map
            (fun jrow => (envOfInsertions (joinedMapping qy.table l.row l.text j jrow).1,
                          (joinedMapping qy.table l.row l.text j jrow).2))) := by
  unfold lineEnvs
  simp only [hj, hki]
  cases joinIndexGet idx (l.row.getD ki .null) with
  | some ps => rfl
  | none => by_cases h : (j.isOuter && allowOuter) = true <;> simp [h]

/-- **(a), (c) at line level**: a plain statement (with or without a join) on an admitted line. The line presents its
rows `pre ++ (env, keys) :: post` (one row without a join; one per partner with a join, `join_line_envs`); the rows
`pre` are evaluated without error; on the next row the engine is the error `k` (WHERE without a value or without a truth
value, a projection without a value: the three lemmas above). Then the execution of the line is the error `k`. -/
theorem joined_row_error_is_line_error (qy : Query) (q : SelectStmt) (hq : qy.stmt = .select q) (idx : JoinIndex) (w : Bool)
    (es : EngineState) (l : Line) (hadm : anyResult l.row = true)
    (pre : List (Env × List String)) (env : Env) (keys : List String) (post : List (Env × List String))
    (henvs : lineEnvs qy idx true l = .ok (pre ++ (env, keys) :: post))
    (seen' : List (List Value)) (acc' : Option RowOut) (hpre : selectEnvs O q pre es.seen none = .ok (seen', acc'))
    (k : ErrKind) (hk : selectOne O q seen' env keys = .error k) :
    executeLine O qy idx w es l = .error k := by
  simp [executeLine, hq, hadm, henvs, bind, Outcome.bind,
    selectEnvs_error O q pre env keys post es.seen none seen' acc' k hpre hk]

/-- **never a silently wrong line**: if ANY of the rows the line presents (any join partner) is one on which the engine
fails, the execution of the line is not a result — whatever the other partners' rows are -/
theorem any_joined_row_without_value_fails_line (qy : Query) (q : SelectStmt) (hq : qy.stmt = .select q) (idx : JoinIndex)
    (w : Bool) (es : EngineState) (l : Line) (hadm : anyResult l.row = true) (envs : List (Env × List String))
    (henvs : lineEnvs qy idx true l = .ok envs) (env : Env) (keys : List String) (hm : (env, keys) ∈ envs)
    (hfail : ∀ seen r, selectOne O q seen env keys ≠ .ok r) :
    ∀ r, executeLine O qy idx w es l ≠ .ok r := by
  intro r
  simp only [executeLine, hq, hadm, Bool.not_true, Bool.false_eq_true, if_false, henvs, bind, Outcome.bind]
  cases hs : selectEnvs O q envs es.seen none with
  | ok p => exact absurd hs (selectEnvs_fails_if_member_fails O q envs env keys hm hfail es.seen none p)
  | error k => simp
  | panic s => simp
  | oracleMissing s => simp

/-- (a) at the level of the file loop, as `C03Expr.no_value_is_reported` is for WHERE: a projected expression without a
value on an admitted line that passes WHERE ends the run of the file with that error; nothing is printed for the line -/
theorem projection_error_is_reported (qy : Query) (q : SelectStmt) (hq : qy.stmt = .select q) (hj : qy.join = none)
    (hw : q.wildcard = false) (idx : JoinIndex) (w : Bool) (ls : LoopState) (fl : FileLine) (rest : List FileLine)
    (hr : fl.readable = true) (hadm : anyResult fl.line.row = true)
    (hpass : PassesWhere O q (envOfInsertions (columnsMapping qy.table fl.line.row fl.line.text))) (k : ErrKind)
    (hk : evalList O (envOfInsertions (columnsMapping qy.table fl.line.row fl.line.text)) (q.projections.map (·.2)) = .error k) :
    (runFile O qy idx w none (fl :: rest) ls).out.error = some k ∧
    (runFile O qy idx w none (fl :: rest) ls).out.printed = ls.out.printed :=
  Props.C03Select.error_is_reported O qy idx w ls fl rest k hr
    (joined_row_error_is_line_error O qy q hq idx w ls.es fl.line hadm [] _ qy.table.columns []
      (by simp [lineEnvs, hj]) ls.es.seen none rfl k
      (selectOne_projection_error O q ls.es.seen _ qy.table.columns hw hpass k hk))

/-! ### (b): aggregate statements — WHERE, GROUP BY keys, aggregate arguments, HAVING's aggregates, per processed row -/

/-- the row passes WHERE (or there is none) -/
def AggPassesWhere (q : AggStmt) (env : Env) : Prop :=
  match q.filter with
  | some f => eval O env f = .ok (.bool true)
  | none => True

theorem aggUpdateRow_where_error (q : AggStmt) (st : AggState) (env : Env) (f : Expr) (hf : q.filter = some f)
    (k : ErrKind) (hk : eval O env f = .error k) : aggUpdateRow O q st env = .error k := by
  simp [aggUpdateRow, hf, hk, bind, Outcome.bind]

theorem aggUpdateRow_where_type_mismatch (q : AggStmt) (st : AggState) (env : Env) (f : Expr) (hf : q.filter = some f)
    (v : Value) (hv : eval O env f = .ok v) (hn : Props.C03.NoTruthValue v) :
    aggUpdateRow O q st env = .error .typeError := by
  simp [aggUpdateRow, hf, hv, bind, Outcome.bind, condHolds_typeError v hn.1 hn.2]

/-- one step of `execute_update` after WHERE -/
theorem aggUpdateRow_passed (q : AggStmt) (st : AggState) (env : Env) (hpass : AggPassesWhere O q env) :
    aggUpdateRow O q st env =
      ((match q.groupBy with
        | some parts => evalList O env (parts.map (·.1))
        | none => .ok [Value.null] : Outcome (List Value))).bind (fun key =>
        (updateAggregates O q env key (enumFrom 0 (q.items.map (·.kind))) st).bind (fun st1 =>
          ((match q.having with
            | some _ => havingUpdates O q env key q.havingVisit 0 st1
            | none => .ok st1 : Outcome AggState)).bind (fun st2 => .ok (st2, true)))) := by
  unfold AggPassesWhere at hpass
  cases hf : q.filter with
  | none => simp only [aggUpdateRow, hf, bind, pure, Outcome.bind]; rfl
  | some f => rw [hf] at hpass; simp only [aggUpdateRow, hf, hpass, bind, pure, Outcome.bind, condHolds_bool]; rfl

/-- a GROUP BY key expression without a value on a row that passes WHERE -/
theorem aggUpdateRow_group_key_error (q : AggStmt) (st : AggState) (env : Env) (hpass : AggPassesWhere O q env)
    (parts : List (Expr × String)) (hg : q.groupBy = some parts) (k : ErrKind)
    (hk : evalList O env (parts.map (·.1)) = .error k) : aggUpdateRow O q st env = .error k := by
  rw [aggUpdateRow_passed O q st env hpass, hg]
  simp [hk, Outcome.bind]

/-- the group key of a row: the values of the GROUP BY expressions (one group, keyed NULL, without GROUP BY) -/
def KeyOf (q : AggStmt) (env : Env) (key : List Value) : Prop :=
  (match q.groupBy with
    | some parts => evalList O env (parts.map (·.1))
    | none => .ok [Value.null] : Outcome (List Value)) = .ok key

/-- the update of the select-list aggregates is an error: so is the row's update -/
theorem aggUpdateRow_aggregate_error (q : AggStmt) (st : AggState) (env : Env) (hpass : AggPassesWhere O q env)
    (key : List Value) (hkey : KeyOf O q env key) (k : ErrKind)
    (hk : updateAggregates O q env key (enumFrom 0 (q.items.map (·.kind))) st = .error k) :
    aggUpdateRow O q st env = .error k := by
  unfold KeyOf at hkey
  rw [aggUpdateRow_passed O q st env hpass, hkey]
  simp [hk, Outcome.bind]

/-- the update of HAVING's aggregates is an error: so is the row's update -/
theorem aggUpdateRow_having_error (q : AggStmt) (st : AggState) (env : Env) (hpass : AggPassesWhere O q env)
    (key : List Value) (hkey : KeyOf O q env key) (st1 : AggState)
    (h1 : updateAggregates O q env key (enumFrom 0 (q.items.map (·.kind))) st = .ok st1)
    (h : Expr) (hh : q.having = some h) (k : ErrKind) (hk : havingUpdates O q env key q.havingVisit 0 st1 = .error k) :
    aggUpdateRow O q st env = .error k := by
  unfold KeyOf at hkey
  rw [aggUpdateRow_passed O q st env hpass, hkey]
  simp [h1, hh, hk, Outcome.bind]

/-- the aggregates are updated in select-list order; the first whose update is an error is the error of all -/
theorem updateAggregates_error_at (q : AggStmt) (env : Env) (key : List Value) : ∀ (pre : List (Nat × AggKind)) (i : Nat)
    (kd : AggKind) (post : List (Nat × AggKind)) (st st' : AggState) (k : ErrKind),
    updateAggregates O q env key pre st = .ok st' →
    cellStep O q env kd (readCell st' key i) = .error k →
    updateAggregates O q env key (pre ++ (i, kd) :: post) st = .error k := by
  intro pre
  induction pre with
  | nil =>
    intro i kd post st st' k h hk
    simp only [updateAggregates, Outcome.ok.injEq] at h
    subst h
    simp [updateAggregates, updateAggregate, hk, bind, Outcome.bind]
  | cons p pre ih =>
    intro i kd post st st' k h hk
    obtain ⟨i1, k1⟩ := p
    simp only [List.cons_append, updateAggregates, bind] at h ⊢
    cases h1 : updateAggregate O q env key i1 k1 st with
    | ok s1 => rw [h1] at h; simp only [Outcome.bind] at h ⊢; exact ih i kd post s1 st' k h hk
    | error k' => rw [h1] at h; simp [Outcome.bind] at h
    | panic s => rw [h1] at h; simp [Outcome.bind] at h
    | oracleMissing s => rw [h1] at h; simp [Outcome.bind] at h

/-- the same for HAVING's aggregates (visited in the order of the HAVING expression) -/
theorem havingUpdates_error_at (q : AggStmt) (env : Env) (key : List Value) : ∀ (pre : List HavingRef) (id : Nat)
    (kd : AggKind) (post : List HavingRef) (j : Nat) (st : AggState) (k : ErrKind),
    (∀ r ∈ pre, ∃ canon, r = .key canon ∧ validateGroupKey q canon = .ok ()) →
    cellStep O q env kd (readCell st key (q.items.length + j)) = .error k →
    havingUpdates O q env key (pre ++ .agg id kd :: post) j st = .error k := by
  intro pre
  induction pre with
  | nil =>
    intro id kd post j st k _ hk
    simp [havingUpdates, updateAggregate, hk, bind, Outcome.bind]
  | cons r pre ih =>
    intro id kd post j st k hpre hk
    obtain ⟨canon, rfl, hv⟩ := hpre r List.mem_cons_self
    simp only [List.cons_append, havingUpdates, hv, bind, Outcome.bind]
    exact ih id kd post j st k (fun r hr => hpre r (List.mem_cons_of_mem _ hr)) hk

/-- the expression an aggregate evaluates on every row of its group (COUNT reads a column, see below) -/
def argumentOf : AggKind → Option Expr
  | .min e | .max e | .sum e | .avg e | .stddev e _ | .percentile e _ | .boolAnd e | .boolOr e | .arrayAgg e
  | .stringAgg e _ => some e
  | _ => none

/-- **an aggregate argument without a value on a row is the error of that aggregate's update**, whatever the group
has accumulated so far -/
theorem cellStep_argument_error (q : AggStmt) (env : Env) (kd : AggKind) (e : Expr) (ha : argumentOf kd = some e)
    (k : ErrKind) (hk : eval O env e = .error k) (c : Cell) : cellStep O q env kd c = .error k := by
  cases kd <;> simp only [argumentOf, Option.some.injEq, reduceCtorEq] at ha <;> subst ha <;>
    simp [cellStep, hk, bind, Outcome.bind]

/-- `COUNT(c)` of a column the row does not have -/
theorem cellStep_count_unknown_column (q : AggStmt) (env : Env) (cn : String) (d : Bool) (h : env.get .table cn = none)
    (c : Cell) : cellStep O q env (.count (some cn) d) c = .error .columnNotFound := by
  simp [cellStep, h, bind, Outcome.bind]

/-- the rows of a line update the aggregates in order; the first row whose update is an error is the error of all -/
theorem aggEnvs_error (q : AggStmt) : ∀ (pre : List (Env × List String)) (env : Env) (keys : List String)
    (post : List (Env × List String)) (st : AggState) (any : Bool) (st' : AggState) (any' : Bool) (k : ErrKind),
    aggEnvs O q pre st any = .ok (st', any') → aggUpdateRow O q st' env = .error k →
    aggEnvs O q (pre ++ (env, keys) :: post) st any = .error k := by
  intro pre
  induction pre with
  | nil =>
    intro env keys post st any st' any' k h hk
    simp only [aggEnvs, Outcome.ok.injEq, Prod.mk.injEq] at h
    obtain ⟨rfl, rfl⟩ := h
    simp [aggEnvs, hk, bind, Outcome.bind]
  | cons p pre ih =>
    intro env keys post st any st' any' k h hk
    obtain ⟨e1, k1⟩ := p
    simp only [List.cons_append, aggEnvs, bind] at h ⊢
    cases h1 : aggUpdateRow O q st e1 with
    | ok r =>
      obtain ⟨s1, u1⟩ := r
      rw [h1] at h
      simp only [Outcome.bind] at h ⊢
      exact ih env keys post s1 _ st' any' k h hk
    | error k' => rw [h1] at h; simp [Outcome.bind] at h
    | panic s => rw [h1] at h; simp [Outcome.bind] at h
    | oracleMissing s => rw [h1] at h; simp [Outcome.bind] at h

/-- **(b) at line level**: an aggregate statement (with or without a join) on an admitted line whose rows are
`pre ++ (env, keys) :: post`; the rows `pre` update the aggregates without error; the update for the next row is the
error `k` (one of the lemmas above). Then the execution of the line is the error `k` — in batch mode (update only) and
in follow mode (update and result) alike. -/
theorem agg_row_error_is_line_error (qy : Query) (q : AggStmt) (hq : qy.stmt = .aggregate q) (idx : JoinIndex) (w : Bool)
    (es : EngineState) (l : Line) (hadm : anyResult l.row = true)
    (pre : List (Env × List String)) (env : Env) (keys : List String) (post : List (Env × List String))
    (henvs : lineEnvs qy idx false l = .ok (pre ++ (env, keys) :: post))
    (st' : AggState) (any' : Bool) (hpre : aggEnvs O q pre es.agg false = .ok (st', any'))
    (k : ErrKind) (hk : aggUpdateRow O q st' env = .error k) :
    executeLine O qy idx w es l = .error k := by
  have h := aggEnvs_error O q pre env keys post es.agg false st' any' k hpre hk
  cases w <;> simp [executeLine, hq, hadm, henvs, bind, Outcome.bind, h]

/-! ### (b): the HAVING expression, evaluated per group when the result is built -/

/-- what HAVING sees of a group: its key values under the canonical texts of the GROUP BY expressions, and the values
of HAVING's own aggregates -/
def havingEnv (q : AggStmt) (key : List Value) (subs : List (Nat × Value)) : Env :=
  { groupKeys := ((keyMapping q).filterMap (fun (c, i) => (key[i]?).map (fun v => (c, v)))).reverse
    groupValues := (enumFrom 0 q.havingAggs).map (fun (j, (id, k)) => (id, (alGet subs (q.items.length + j)).getD (emptyGroupValue k))) }

/-- `accept_group`: the HAVING expression on the group, as a condition -/
theorem acceptGroup_eq (q : AggStmt) (h : Expr) (key : List Value) (subs : List (Nat × Value)) :
    acceptGroup O q h key subs = (eval O (havingEnv q key subs) h).bind condHolds := rfl

/-- HAVING without a value on a group -/
theorem acceptGroup_eval_error (q : AggStmt) (h : Expr) (key : List Value) (subs : List (Nat × Value)) (k : ErrKind)
    (hk : eval O (havingEnv q key subs) h = .error k) : acceptGroup O q h key subs = .error k := by
  rw [acceptGroup_eq, hk]; rfl

/-- HAVING with a value that has no truth value on a group (`HAVING SUM(v)`): the type error (D69) -/
theorem acceptGroup_type_mismatch (q : AggStmt) (h : Expr) (key : List Value) (subs : List (Nat × Value)) (v : Value)
    (hv : eval O (havingEnv q key subs) h = .ok v) (hn : Props.C03.NoTruthValue v) :
    acceptGroup O q h key subs = .error .typeError := by
  rw [acceptGroup_eq, hv]; exact condHolds_typeError v hn.1 hn.2

/-- the groups are visited in key order; the first group on which HAVING is an error is the error of the result rows -/
theorem resultRows_having_error (q : AggStmt) (h : Expr) (hh : q.having = some h) :
    ∀ (pre : List (List Value × List (Nat × Value))) (key : List Value) (subs : List (Nat × Value))
      (post : List (List Value × List (Nat × Value))) (seen : List (List Value)) (k : ErrKind),
    (∀ g ∈ pre, (∃ row, rowOf O q g.1 g.2 (enumFrom 0 q.items) = .ok row) ∧ ∃ b, acceptGroup O q h g.1 g.2 = .ok b) →
    (∃ row, rowOf O q key subs (enumFrom 0 q.items) = .ok row) →
    acceptGroup O q h key subs = .error k →
    resultRows O q (pre ++ (key, subs) :: post) seen = .error k := by
  intro pre
  induction pre with
  | nil =>
    intro key subs post seen k _ hrow hk
    obtain ⟨row, hrow⟩ := hrow
    simp [resultRows, hrow, hh, hk, bind, Outcome.bind]
  | cons g pre ih =>
    intro key subs post seen k hpre hrow hk
    obtain ⟨gk, gs⟩ := g
    obtain ⟨⟨row, hr⟩, ⟨b, hb⟩⟩ := hpre (gk, gs) List.mem_cons_self
    have hpre' : ∀ g ∈ pre, (∃ row, rowOf O q g.1 g.2 (enumFrom 0 q.items) = .ok row) ∧ ∃ b, acceptGroup O q h g.1 g.2 = .ok b :=
      fun g hg => hpre g (List.mem_cons_of_mem _ hg)
    simp only [List.cons_append, resultRows, hr, hh, hb, bind, Outcome.bind]
    cases b with
    | false => simpa using ih key subs post seen k hpre' hrow hk
    | true =>
      simp only [Bool.not_true, Bool.false_eq_true, if_false]
      by_cases hd : q.distinct = true
      · simp only [hd, if_true]
        by_cases hfr : (distinctAdd seen row).2 = true
        · simp only [hfr, if_true]; rw [ih key subs post _ k hpre' hrow hk]
        · simp only [hfr, Bool.false_eq_true, if_false]; exact ih key subs post _ k hpre' hrow hk
      · simp only [hd, Bool.false_eq_true, if_false]; rw [ih key subs post _ k hpre' hrow hk]

/-- **a group on which HAVING has no value (or no truth value) makes the RESULT that error**: the groups of the state
in key order `pre ++ (key, subs) :: post`, every group has its row (the select-list cells evaluate), HAVING answers on
the groups `pre` and is the error `k` on the next: then `execute_result` is the error `k` — no table, not a table
without that group -/
theorem having_error_is_result_error (q : AggStmt) (h : Expr) (hh : q.having = some h) (es : EngineState)
    (pre : List (List Value × List (Nat × Value))) (key : List Value) (subs : List (Nat × Value))
    (post : List (List Value × List (Nat × Value)))
    (hgroups : (publishPercentiles es.agg).vals = pre ++ (key, subs) :: post)
    (hrows : ∀ g ∈ pre ++ (key, subs) :: post, ∃ row, rowOf O q g.1 g.2 (enumFrom 0 q.items) = .ok row)
    (hpre : ∀ g ∈ pre, ∃ b, acceptGroup O q h g.1 g.2 = .ok b)
    (k : ErrKind) (hk : acceptGroup O q h key subs = .error k) :
    finalResult O q es = .error k := by
  have hres := resultRows_having_error O q h hh pre key subs post [] k
    (fun g hg => ⟨hrows g (List.mem_append_left _ hg), hpre g hg⟩)
    (hrows (key, subs) (List.mem_append_right _ List.mem_cons_self)) hk
  unfold finalResult aggResult
  simp only [hgroups, bind, pure, Outcome.bind]
  obtain ⟨cs, hcs⟩ := aggColumns_ok_of_rows hrows
  simp only [hcs, hres]

/-- **an error of the final result is the error of the run**: an aggregate statement whose input was read without
failure and whose `execute_result` is the error `k` ends with the error `k` and prints no table -/
theorem final_result_error_is_run_error (qy : Query) (q : AggStmt) (hq : qy.stmt = .aggregate q) (joined : List FileLine)
    (idx : JoinIndex) (hidx : joinSetup qy joined = .ok idx) (files : List (List FileLine))
    (hok : hasFailed (runFiles O qy idx (batchMode qy) none files {}).out = false) (k : ErrKind)
    (hk : finalResult O q (runFiles O qy idx (batchMode qy) none files {}).es = .error k) :
    (runBatch O qy joined files none).error = some k ∧
    (runBatch O qy joined files none).printed = (runFiles O qy idx (batchMode qy) none files {}).out.printed := by
  rw [runBatch_eq O qy joined files idx hidx]
  simp [hok, hq, hk, failWith]

/-! ### D69 for aggregate statements, composed to the run: a WHERE / HAVING value that is neither BOOLEAN nor NULL -/

/-- **an aggregate WHERE whose value has no truth value is the type error of the RUN** (finding D69, the aggregate
half; `C03Expr.where_type_mismatch_is_reported` is the SELECT half). Any aggregate statement, with or without a join:
the run reaches an admitted line; the line presents the rows `epre ++ (env, keys) :: epost` (one per join partner; one
row without a join); the rows `epre` update the aggregates without error; on the next row WHERE evaluates to a value `v`
of another type than BOOLEAN that is not NULL (`WHERE v + 1`). Then the batch run ends with the type error, prints no
table (nothing beyond what was printed before the line), and the line is the last one counted — the row is not
silently left out of its group. -/
theorem agg_where_type_mismatch_is_run_error (qy : Query) (q : AggStmt) (hq : qy.stmt = .aggregate q) (joined : List FileLine)
    (idx : JoinIndex) (hidx : joinSetup qy joined = .ok idx)
    (before : List (List FileLine)) (pre : List FileLine) (fl : FileLine) (rest : List FileLine) (after : List (List FileLine))
    (hreach : Reaches O qy idx (batchMode qy) before pre) (hr : fl.readable = true) (hadm : anyResult fl.line.row = true)
    (epre : List (Env × List String)) (env : Env) (keys : List String) (epost : List (Env × List String))
    (henvs : lineEnvs qy idx false fl.line = .ok (epre ++ (env, keys) :: epost))
    (st' : AggState) (any' : Bool)
    (hpre : aggEnvs O q epre (stateAt O qy idx (batchMode qy) before pre).es.agg false = .ok (st', any'))
    (f : Expr) (hf : q.filter = some f) (v : Value) (hv : eval O env f = .ok v) (hn : Props.C03.NoTruthValue v) :
    let out := runBatch O qy joined (before ++ (pre ++ fl :: rest) :: after) none
    out.error = some .typeError ∧
    out.printed = (stateAt O qy idx (batchMode qy) before pre).out.printed ∧
    out.totalLines = (stateAt O qy idx (batchMode qy) before pre).out.totalLines + 1 :=
  line_error_is_run_error O qy joined idx hidx before pre fl rest after hreach hr .typeError
    (agg_row_error_is_line_error O qy q hq idx (batchMode qy) _ fl.line hadm epre env keys epost henvs st' any' hpre .typeError
      (aggUpdateRow_where_type_mismatch O q st' env f hf v hv hn))

/-- … without a join the line presents exactly one row, the line's own: the statement of
`C03Expr.where_type_mismatch_is_reported` for an aggregate statement, at run level -/
theorem agg_where_type_mismatch_is_reported (qy : Query) (q : AggStmt) (hq : qy.stmt = .aggregate q) (hj : qy.join = none)
    (joined : List FileLine) (idx : JoinIndex) (hidx : joinSetup qy joined = .ok idx)
    (before : List (List FileLine)) (pre : List FileLine) (fl : FileLine) (rest : List FileLine) (after : List (List FileLine))
    (hreach : Reaches O qy idx (batchMode qy) before pre) (hr : fl.readable = true) (hadm : anyResult fl.line.row = true)
    (f : Expr) (hf : q.filter = some f) (v : Value)
    (hv : eval O (envOfInsertions (columnsMapping qy.table fl.line.row fl.line.text)) f = .ok v) (hn : Props.C03.NoTruthValue v) :
    let out := runBatch O qy joined (before ++ (pre ++ fl :: rest) :: after) none
    out.error = some .typeError ∧
    out.printed = (stateAt O qy idx (batchMode qy) before pre).out.printed ∧
    out.totalLines = (stateAt O qy idx (batchMode qy) before pre).out.totalLines + 1 :=
  agg_where_type_mismatch_is_run_error O qy q hq joined idx hidx before pre fl rest after hreach hr hadm
    [] _ qy.table.columns [] (by simp [lineEnvs, hj]) _ false rfl f hf v hv hn

/-- **a HAVING whose value on some group has no truth value is the type error of the RUN** (finding D69, the HAVING
half). The input was read without failure; the groups of the final state in key order are `pre ++ (key, subs) :: post`;
every cell of the table has a value; HAVING answers on the groups `pre`; on the next group it evaluates to a value `v`
of another type than BOOLEAN that is not NULL (`HAVING SUM(v)`). Then the run ends with the type error and prints no
table — not the table without that group. -/
theorem having_type_mismatch_is_run_error (qy : Query) (q : AggStmt) (hq : qy.stmt = .aggregate q) (joined : List FileLine)
    (idx : JoinIndex) (hidx : joinSetup qy joined = .ok idx) (files : List (List FileLine))
    (hok : hasFailed (runFiles O qy idx (batchMode qy) none files {}).out = false)
    (h : Expr) (hh : q.having = some h)
    (pre : List (List Value × List (Nat × Value))) (key : List Value) (subs : List (Nat × Value))
    (post : List (List Value × List (Nat × Value)))
    (hgroups : (publishPercentiles (runFiles O qy idx (batchMode qy) none files {}).es.agg).vals = pre ++ (key, subs) :: post)
    (hrows : ∀ g ∈ pre ++ (key, subs) :: post, ∃ row, rowOf O q g.1 g.2 (enumFrom 0 q.items) = .ok row)
    (hpre : ∀ g ∈ pre, ∃ b, acceptGroup O q h g.1 g.2 = .ok b)
    (v : Value) (hv : eval O (havingEnv q key subs) h = .ok v) (hn : Props.C03.NoTruthValue v) :
    (runBatch O qy joined files none).error = some .typeError ∧
    (runBatch O qy joined files none).printed = (runFiles O qy idx (batchMode qy) none files {}).out.printed :=
  final_result_error_is_run_error O qy q hq joined idx hidx files hok .typeError
    (having_error_is_result_error O q h hh _ pre key subs post hgroups hrows hpre .typeError
      (acceptGroup_type_mismatch O q h key subs v hv hn))

/-! ### examples: whole invocations on real texts (kernel-evaluated), one per clause -/

section Examples
open Sqlgrep.Pipeline
open Sqlgrep.Props.Pipeline (exFacts exDefs recordsOf)

/-- (a) a projection without a value on the SECOND line (`1 / (2 - 2)`): the row of the first line is printed, then the
run ends with the error after two lines — no row for the second line -/
example : recordsOf (runText exFacts exDefs "select k, 10 / (v - 2) from t".toList .text false [strBytes "a;1\nb;2\n"]) =
    some (some .undefinedOperation, 2, [strBytes "k: 'a', p1: -10"]) := by decide +kernel

/-- … an unknown column in the select list: the error of the first admitted line -/
example : recordsOf (runText exFacts exDefs "select k, nosuch from t".toList .text false [strBytes "zzz\na;1\nb;2\n"]) =
    some (some .columnNotFound, 2, []) := by decide +kernel

/-- (b) an aggregate ARGUMENT without a value on the second line: error, no table -/
example : recordsOf (runText exFacts exDefs "SELECT COUNT(*), SUM(10 / (v - 2)) FROM t".toList .text false [strBytes "a;1\nb;2\n"]) =
    some (some .undefinedOperation, 2, []) := by decide +kernel

/-- (b) a GROUP BY key without a value -/
example : recordsOf (runText exFacts exDefs "SELECT 10 / (v - 2), COUNT(*) FROM t GROUP BY 10 / (v - 2)".toList .text false [strBytes "a;1\nb;2\n"]) =
    some (some .undefinedOperation, 2, []) := by decide +kernel

/-- (b) WHERE of an aggregate statement without a truth value (D69) -/
example : recordsOf (runText exFacts exDefs "SELECT COUNT(*) FROM t WHERE v + 1".toList .text false [strBytes "a;1\nb;2\n"]) =
    some (some .typeError, 1, []) := by decide +kernel

/-- (b) HAVING without a value on the group `b` (`10 / (SUM(v) - 2)`), with a value on the group `a`: all lines are
read, then the RESULT is the error — no table, not the table without group `b` -/
example : recordsOf (runText exFacts exDefs "SELECT k, SUM(v) FROM t GROUP BY k HAVING 10 / (SUM(v) - 2) < 0".toList .text false [strBytes "a;1\nb;2\n"]) =
    some (some .undefinedOperation, 2, []) := by decide +kernel

/-- … and the same statement over the group `a` alone prints it -/
example : recordsOf (runText exFacts exDefs "SELECT k, SUM(v) FROM t GROUP BY k HAVING 10 / (SUM(v) - 2) < 0".toList .text false [strBytes "a;1\n"]) =
    some (none, 1, [strBytes "k: 'a', sum1: 1"]) := by decide +kernel

/-- (b) HAVING with a value that has no truth value (`HAVING SUM(v)`): the type error, no table -/
example : recordsOf (runText exFacts exDefs "SELECT k, SUM(v) FROM t GROUP BY k HAVING SUM(v)".toList .text false [strBytes "a;1\nb;2\n"]) =
    some (some .typeError, 2, []) := by decide +kernel

/-- tables `t` and `u` over the same line shape, and the joined file `u.txt` holding `a;5`, `b;0`, `b;4` -/
def exJoinFacts : Facts :=
  { exFacts with
    lines := exFacts.lines ++
      [(strBytes "a;5", { captures := [(strBytes "^([a-z]+);([0-9]+)$", some [some (strBytes "a;5"), some (strBytes "a"), some (strBytes "5")])] }),
       (strBytes "b;0", { captures := [(strBytes "^([a-z]+);([0-9]+)$", some [some (strBytes "b;0"), some (strBytes "b"), some (strBytes "0")])] }),
       (strBytes "b;4", { captures := [(strBytes "^([a-z]+);([0-9]+)$", some [some (strBytes "b;4"), some (strBytes "b"), some (strBytes "4")])] })]
    fs := [("u.txt", strBytes "a;5\nb;4\nb;0\n")] }

def exJoinDefs : List Char :=
  exDefs ++ " CREATE TABLE u(line = '^([a-z]+);([0-9]+)$', line[1] => k TEXT, line[2] => w INT);".toList

/-- (c) a join: line `a;1` has one partner (`a;5`: `10 / 5`), line `b;2` has two (`b;4`, then `b;0`): the projection has no
value on the SECOND partner's row — the run ends with the error and prints NOTHING for line `b;2`, not even the row of
its first partner -/
example : recordsOf (runText exJoinFacts exJoinDefs "select t.k, 10 / w from t inner join u::'u.txt' on t.k = u.k".toList .text false
      [strBytes "a;1\nb;2\n"]) =
    some (some .undefinedOperation, 2, [strBytes "t.k: 'a', p1: 2"]) := by decide +kernel

/-- (c) WHERE over the joined row without a value -/
example : recordsOf (runText exJoinFacts exJoinDefs "select t.k from t inner join u::'u.txt' on t.k = u.k where 10 / w > 1".toList .text false
      [strBytes "a;1\nb;2\n"]) =
    some (some .undefinedOperation, 2, [strBytes "t.k: 'a'"]) := by decide +kernel

/-- (c) an aggregate over a join: the argument has no value on a joined row -/
example : recordsOf (runText exJoinFacts exJoinDefs "select sum(10 / w) from t inner join u::'u.txt' on t.k = u.k".toList .text false
      [strBytes "a;1\nb;2\n"]) =
    some (some .undefinedOperation, 2, []) := by decide +kernel

/-! the hypotheses of the theorems are satisfiable together (engine level) -/

/-- `SELECT 10 / (v - 2) FROM t` -/
def exQy : Query :=
  { stmt := .select { projections := [("p0", .arith .div (.value (.int 10)) (.arith .sub (.column "v") (.value (.int 2))))],
                      wildcard := false, filter := none, limit := none, distinct := false }
    table := { name := "t", columns := ["v"] }, join := none }

/-- `SELECT SUM(10 / (v - 2)) FROM t` -/
def exAggQy : Query :=
  { stmt := .aggregate { items := [{ name := "sum0", kind := .sum (.arith .div (.value (.int 10)) (.arith .sub (.column "v") (.value (.int 2)))), transform := none }],
                         filter := none, groupBy := none, having := none, havingAggs := [], havingKeys := [], limit := none, distinct := false }
    table := { name := "t", columns := ["v"] }, join := none }

def exLine (n : Int) : FileLine := { readable := true, line := { text := [], row := [.int n] } }

/-- the run over two files reaches the second line of the second file (v = 2), where the projection has no value -/
example : Reaches {} exQy [] (batchMode exQy) [[exLine 1]] [exLine 3] ∧
    executeLine {} exQy [] (batchMode exQy) (stateAt {} exQy [] (batchMode exQy) [[exLine 1]] [exLine 3]).es (exLine 2).line =
      .error .undefinedOperation := ⟨⟨rfl, rfl, rfl⟩, rfl⟩

/-- … so the run reports it, having printed the rows of the two lines before -/
example : (runBatch {} exQy [] ([[exLine 1]] ++ ([exLine 3] ++ exLine 2 :: [exLine 5]) :: [[exLine 7]]) none).error = some .undefinedOperation ∧
    (runBatch {} exQy [] ([[exLine 1]] ++ ([exLine 3] ++ exLine 2 :: [exLine 5]) :: [[exLine 7]]) none).printed = ["p0: -10", "p0: 10"] := by
  have h := line_error_is_run_error {} exQy [] [] rfl [[exLine 1]] [exLine 3] (exLine 2) [exLine 5] [[exLine 7]]
    ⟨rfl, rfl, rfl⟩ rfl .undefinedOperation rfl
  exact ⟨h.1, h.2.1⟩

/-- the aggregate statement: the argument of SUM has no value on the row v = 2 (`cellStep_argument_error`), so the row's
update, the line and the run are that error -/
example : aggUpdateRow {} (match exAggQy.stmt with | .aggregate q => q | _ => default) {}
      (envOfInsertions (columnsMapping exAggQy.table [.int 2] [])) = .error .undefinedOperation ∧
    (runBatch {} exAggQy [] [[exLine 1, exLine 2, exLine 3]] none).error = some .undefinedOperation ∧
    (runBatch {} exAggQy [] [[exLine 1, exLine 2, exLine 3]] none).printed = [] := ⟨rfl, rfl, rfl⟩

/-- `SELECT COUNT(*) FROM t WHERE v + 1` -/
def exAggWhereQy : Query :=
  { stmt := .aggregate { items := [{ name := "count0", kind := .count none false, transform := none }],
                         filter := some (.arith .add (.column "v") (.value (.int 1))), groupBy := none, having := none,
                         havingAggs := [], havingKeys := [], limit := none, distinct := false }
    table := { name := "t", columns := ["v"] }, join := none }

/-- the hypotheses of `agg_where_type_mismatch_is_reported` on the second line of a file: WHERE is `4` there, an INT — and
the run over the three lines is the type error after two lines, no table (D69) -/
example : (runBatch {} exAggWhereQy [] ([] ++ ([exLine 1] ++ exLine 3 :: [exLine 5]) :: []) none).error = some .typeError ∧
    (runBatch {} exAggWhereQy [] ([] ++ ([exLine 1] ++ exLine 3 :: [exLine 5]) :: []) none).printed = [] ∧
    (runBatch {} exAggWhereQy [] ([] ++ ([exLine 1] ++ exLine 3 :: [exLine 5]) :: []) none).totalLines = 1 := by
  have h := agg_where_type_mismatch_is_reported {} exAggWhereQy _ rfl rfl [] [] rfl [] [] (exLine 3) [exLine 5] []
    ⟨rfl, rfl, rfl⟩ rfl rfl _ rfl (.int 4) rfl ⟨by simp, by intro b; simp⟩
  exact h

/-- `SELECT k, SUM(v) FROM t GROUP BY k HAVING SUM(v)` over rows `(1, 5)`, `(2, 7)` -/
def exHavingQy : Query :=
  { stmt := .aggregate { items := [{ name := "k", kind := .groupKey (.column "k") "k", transform := none },
                                   { name := "sum1", kind := .sum (.column "v"), transform := none }],
                         filter := none, groupBy := some [(.column "k", "k")], having := some (.groupValueRef 0),
                         havingAggs := [(0, .sum (.column "v"))], havingKeys := [], havingVisit := [.agg 0 (.sum (.column "v"))],
                         limit := none, distinct := false }
    table := { name := "t", columns := ["k", "v"] }, join := none }

def exLine2 (k n : Int) : FileLine := { readable := true, line := { text := [], row := [.int k, .int n] } }

/-- the hypotheses of `having_type_mismatch_is_run_error`: both lines are read, the groups are `1` and `2`, every cell has
a value, HAVING is `5` on the first group — an INT: the run is the type error and prints no table (D69) -/
example : (runBatch {} exHavingQy [] [[exLine2 1 5, exLine2 2 7]] none).error = some .typeError ∧
    (runBatch {} exHavingQy [] [[exLine2 1 5, exLine2 2 7]] none).printed = [] := by
  have h := having_type_mismatch_is_run_error {} exHavingQy _ rfl [] [] rfl [[exLine2 1 5, exLine2 2 7]] rfl _ rfl
    [] [.int 1] [(1, .int 5), (2, .int 5)] [([.int 2], [(1, .int 7), (2, .int 7)])] rfl
    (by intro g hg
        simp only [List.nil_append, List.mem_cons, List.not_mem_nil, or_false] at hg
        rcases hg with rfl | rfl <;> exact ⟨_, rfl⟩)
    (by intro g hg; simp at hg) (.int 5) rfl ⟨by simp, by intro b; simp⟩
  exact h

end Examples

end Sqlgrep.Props.C03Run
