// Validation of `f64::from_str` written in Lean (`lean/SqlgrepModel/Model/DecFloat.lean`, `parseF64`): generated
// number texts are given to Rust's `str::parse::<f64>()` (the function the tokenizer, `ValueType::parse` and the
// CONVERT columns call) and to the Lean function; both answer `ok BITS` / `err` (driver kind `f64parse`).
// The texts: every shape of the grammar (sign, integer part, fraction, exponent, `inf` / `infinity` / `nan`
// spellings), long mantissas, exponents around the subnormal and overflow thresholds, *halfway cases* (the exact
// decimal expansion of the midpoint between two adjacent doubles — finite, up to ~770 significant digits — and that
// expansion nudged up or down in its last digit or by a digit appended far to the right), exact expansions of
// doubles themselves, shortest round-trip renderings, and malformed texts.
use crate::run::Run;
use crate::util::{hexs, Rng};

/// a natural number in base 10^9, least significant limb first
#[derive(Clone)]
struct Big(Vec<u32>);

impl Big {
    fn from_u64(v: u64) -> Big {
        let mut limbs = Vec::new();
        let mut v = v;
        while v > 0 { limbs.push((v % 1_000_000_000) as u32); v /= 1_000_000_000; }
        Big(limbs)
    }
    fn mul_small(&mut self, k: u32) {
        let mut carry: u64 = 0;
        for l in self.0.iter_mut() {
            let t = *l as u64 * k as u64 + carry;
            *l = (t % 1_000_000_000) as u32;
            carry = t / 1_000_000_000;
        }
        while carry > 0 { self.0.push((carry % 1_000_000_000) as u32); carry /= 1_000_000_000; }
    }
    fn digits(&self) -> String {
        if self.0.is_empty() { return "0".to_owned(); }
        let mut s = format!("{}", self.0[self.0.len() - 1]);
        for l in self.0.iter().rev().skip(1) { s.push_str(&format!("{:09}", l)); }
        s
    }
}

/// exact decimal expansion of `m · 2^e` (m ≥ 0): digits with a decimal point, no exponent
fn exact_decimal(m: u64, e: i32) -> String {
    let mut b = Big::from_u64(m);
    if e >= 0 {
        for _ in 0..e { b.mul_small(2); }
        b.digits()
    } else {
        let k = (-e) as usize;
        for _ in 0..k { b.mul_small(5); }     // m·2^-k = m·5^k / 10^k
        let d = b.digits();
        let d = if d.len() <= k { format!("{}{}", "0".repeat(k + 1 - d.len()), d) } else { d };
        let (ip, fp) = d.split_at(d.len() - k);
        let fp = fp.trim_end_matches('0');
        if fp.is_empty() { ip.to_owned() } else { format!("{}.{}", ip, fp) }
    }
}

/// integer mantissa and binary exponent of a finite non-negative double
fn decompose(bits: u64) -> (u64, i32) {
    let ef = ((bits >> 52) & 0x7ff) as i32;
    let fr = bits & ((1u64 << 52) - 1);
    if ef == 0 { (fr, -1074) } else { (fr | (1u64 << 52), ef - 1075) }
}

/// the exact decimal expansion of the midpoint between the double `bits` and its successor (`bits + 1`)
fn midpoint_above(bits: u64) -> String {
    let (m, e) = decompose(bits);
    exact_decimal(2 * m + 1, e - 1)
}

/// rewrite a plain decimal `iii.fff` in exponent notation with the point moved by `shift` places (value unchanged)
fn with_exponent(plain: &str, shift: i32, upper: bool) -> String {
    let (ip, fp) = match plain.find('.') { Some(i) => (&plain[..i], &plain[i + 1..]), None => (plain, "") };
    let digits: String = format!("{}{}", ip, fp);
    let point = ip.len() as i32 - shift;       // position of the point inside `digits` after moving it left by `shift`
    let (body, exp) = if point <= 0 {
        (format!("0.{}{}", "0".repeat((-point) as usize), digits), shift)
    } else if (point as usize) >= digits.len() {
        (format!("{}{}", digits, "0".repeat(point as usize - digits.len())), shift)
    } else {
        (format!("{}.{}", &digits[..point as usize], &digits[point as usize..]), shift)
    };
    format!("{}{}{}", body, if upper { "E" } else { "e" }, exp)
}

/// change the last digit of a decimal text by ±1 where that needs no carry; else append a digit
fn nudge(rng: &mut Rng, s: &str) -> String {
    let mut cs: Vec<char> = s.chars().collect();
    let last = cs.len() - 1;
    match rng.below(5) {
        0 if cs[last] >= '1' && cs[last] <= '9' => { cs[last] = ((cs[last] as u8) - 1) as char; cs.into_iter().collect() }
        1 if cs[last] >= '0' && cs[last] <= '8' => { cs[last] = ((cs[last] as u8) + 1) as char; cs.into_iter().collect() }
        2 => { let dot = if s.contains('.') { "" } else { "." }; format!("{}{}{}1", s, dot, "0".repeat(rng.below(40))) }
        3 => { let dot = if s.contains('.') { "" } else { "." }; format!("{}{}{}", s, dot, "0".repeat(1 + rng.below(40))) }
        _ => {
            // the expansion cut short (below the midpoint) or cut and followed by 9s
            let keep = 1 + rng.below(cs.len());
            let mut t: String = cs[..keep].iter().collect();
            if t.ends_with('.') { t.push('0'); }
            if rng.chance(1, 2) && t.contains('.') { t.push_str(&"9".repeat(1 + rng.below(30))); }
            t
        }
    }
}

fn interesting_bits(rng: &mut Rng) -> u64 {
    let ef: u64 = match rng.below(10) {
        0 => 0,                                   // subnormals
        1 => 1,                                   // smallest normals
        2 => 2046,                                // largest finite binade
        3 => 1023 + rng.below(64) as u64,         // integers
        4 => 1075 + rng.below(4) as u64 - 2,      // around 2^53
        5 => rng.below(4) as u64,
        6 => 2046 - rng.below(3) as u64,
        _ => rng.below(2047) as u64,
    };
    let fr: u64 = match rng.below(8) {
        0 => 0,
        1 => (1u64 << 52) - 1,
        2 => rng.below(4) as u64,
        3 => (1u64 << 52) - 1 - rng.below(4) as u64,
        4 => 1u64 << rng.below(52),
        _ => rng.next() & ((1u64 << 52) - 1),
    };
    (ef << 52) | fr
}

const FIXED: &[&str] = &["0", "-0", "+0", "0.0", "-0.0", "00", "1", "-1", "+1", "1.", ".1", "1.0", "-.5", "+.5", "5.", "-5.", "0.1", "0.2", "0.3", "1e0", "1E0", "1e+0", "1e-0",
    "1e23", "8.5e22", "9007199254740992", "9007199254740993", "9007199254740994", "9007199254740995", "9007199254740993.0000000000000000000000001", "9007199254740992.9999999999999999999",
    "2.2250738585072011e-308", "2.2250738585072012e-308", "2.2250738585072014e-308", "2.2250738585072009e-308", "4.9e-324", "4.9406564584124654e-324", "5e-324", "3e-324", "2e-324",
    "2.4703282292062327e-324", "2.4703282292062328e-324", "2.47032822920623272e-324", "2.47032822920623273e-324", "7.4109846876186981e-324", "7.4109846876186982e-324",
    "1.7976931348623157e308", "1.7976931348623158e308", "1.7976931348623159e308", "1.797693134862315807e308", "1.797693134862315808e308", "1.8e308", "2e308", "1e308", "1e309", "1e400", "-1e400", "1e-400", "-1e-400",
    "1e-323", "1e-324", "1e-325", "9e-325", "0e0", "0e400", "0e-400", "0.0e99999", "0e99999999999999999999999999999", "1e99999999999999999999999999999", "1e-99999999999999999999999999999",
    "-1e99999999999999999999999999999", "1e18446744073709551616", "1e-18446744073709551616", "1e9223372036854775807", "1e9223372036854775808", "1e-9223372036854775808", "1e-9223372036854775809",
    "1e4294967296", "1e-4294967296", "1e2147483648", "1e-2147483649", "1e00000000000000000000000000000000000000005", "0.000000000000000000000000000000000000000000000001e48",
    "100000000000000000000000000000000000000000000000000e-50", "123456789012345678901234567890", "0.000001", "1.7976931348623157e+308", "6.02214076e23", "6.62607015E-34",
    "3.141592653589793238462643383279502884197169399375105820974944592307816406286", "0.30000000000000004", "0.1e1", "10e-1", "1e1", "1.5", "2.5", "1.25e2",
    "inf", "+inf", "-inf", "INF", "Inf", "iNf", "infinity", "Infinity", "-INFINITY", "+InFiNiTy", "nan", "NaN", "NAN", "-nan", "+nan", "-NaN", "nAn",
    "", " ", "+", "-", ".", "+.", "-.", "e", "e5", "E5", ".e5", "+e5", "1e", "1e+", "1e-", "1E", "1e+-5", "1e--5", "1e5.", "1e5.0", "1e.5", "1.5.5", "1..5", "--1", "++1", "+-1", "-+1",
    "1_0", "1_000.0", "0x10", "0x1p3", "1f", "1.0f", "1d", "1L", " 1", "1 ", "1 .5", "1. 5", "\t1", "1\n", "1,5", "1,000", "infinit", "infinityy", "in", "i", "na", "n", "nana", "nan0", "0nan",
    "inf.", "inf0", "infe5", "nane5", "-", "+-inf", "--inf", "- inf", "١", "1١", "１", "1１", "²", "½", "1\u{0}", "\u{0}", "1e５", "−1", "1é", "é", "1\u{feff}", "\u{feff}1", "Ⅷ", "1e1e1", "1ee1",
    "1e 1", "1 e1", "1.e", ".e", "..", "1.e+", "1.0e", "0.", ".0", "0.e0", ".0e0", "00.00e00", "-00.00e-00", "1e+05", "1E-05"];

fn gen_plain(rng: &mut Rng) -> String {
    let mut s = String::new();
    match rng.below(6) { 0 => s.push('-'), 1 => s.push('+'), _ => {} }
    let ni = match rng.below(6) { 0 => 0, 1 => 1, 2 => 2, 3 => rng.below(20), 4 => rng.below(40), _ => rng.below(8) };
    for i in 0..ni { s.push(if i == 0 && rng.chance(1, 6) { '0' } else { (b'0' + rng.below(10) as u8) as char }); }
    let dot = rng.chance(2, 3);
    if dot {
        s.push('.');
        let nf = match rng.below(6) { 0 => 0, 1 => 1, 2 => rng.below(25), 3 => rng.below(60), _ => rng.below(8) };
        let lead = if rng.chance(1, 5) { rng.below(30) } else { 0 };
        for _ in 0..lead { s.push('0'); }
        for _ in 0..nf { s.push((b'0' + rng.below(10) as u8) as char); }
    }
    if rng.chance(1, 2) {
        s.push(if rng.chance(1, 2) { 'e' } else { 'E' });
        match rng.below(4) { 0 => s.push('-'), 1 => s.push('+'), _ => {} }
        let e = match rng.below(8) { 0 => rng.below(10), 1 => 300 + rng.below(30), 2 => 320 + rng.below(10), 3 => rng.below(400), 4 => rng.below(2000), 5 => rng.below(40), _ => rng.below(100) };
        if rng.chance(1, 10) { s.push_str(&"0".repeat(rng.below(5))); }
        s.push_str(&e.to_string());
    }
    s
}

fn mutate(rng: &mut Rng, text: &str) -> String {
    const INS: &[char] = &['e', 'E', '.', '-', '+', '0', '9', ' ', '_', 'x', 'i', 'n', 'f', 'a', 'N', '١', '\u{0}', ','];
    let mut cs: Vec<char> = text.chars().collect();
    let pos = rng.below(cs.len() + 1);
    match rng.below(4) {
        0 if pos < cs.len() => { cs.remove(pos); }
        1 if pos < cs.len() => { let c = cs[pos]; cs.insert(pos, c); }
        2 if pos + 1 < cs.len() => { cs.swap(pos, pos + 1); }
        _ => { cs.insert(pos, *rng.pick(INS)); }
    }
    cs.into_iter().collect()
}

pub fn emit(run: &mut Run, text: &str, origin: &str) {
    let real = text.parse::<f64>();
    let (answer, kind) = match &real {
        Ok(v) => {
            let b = v.to_bits();
            let mag = b & 0x7fff_ffff_ffff_ffff;
            let kind = if mag == 0 { "zero" } else if mag > 0x7ff0_0000_0000_0000 { "nan" } else if mag == 0x7ff0_0000_0000_0000 { "inf" }
                else if mag < (1u64 << 52) { "subnormal" } else { "normal" };
            (format!("ok {}", b), kind)
        }
        Err(_) => ("err".to_owned(), "err"),
    };
    let shape = format!("{}{}{}{}", if text.starts_with('-') || text.starts_with('+') { "s" } else { "" }, if text.contains('.') { "d" } else { "" },
        if text.contains('e') || text.contains('E') { "e" } else { "" }, if text.len() > 40 { "L" } else { "" });
    run.count(&format!("f64parse:{}:{}", origin, kind));
    run.case_with_desc(format!("f64parse {}", hexs(text)), answer, format!("f64parse:{}:{}:{}", origin, kind, shape), format!("{:?}.parse::<f64>()", text));
}

pub fn stream(run: &mut Run, rng: &mut Rng, n: usize) {
    for t in FIXED {
        emit(run, t, "fixed");
        if !t.is_empty() { emit(run, &format!("-{}", t), "fixed"); }
    }
    // a mantissa of 800 (and more) digits, with and without a compensating exponent
    for len in [20usize, 100, 400, 800, 1200, 3000] {
        let d: String = (0..len).map(|_| (b'0' + rng.below(10) as u8) as char).collect();
        emit(run, &format!("1{}", d), "long");
        emit(run, &format!("1{}e-{}", d, len), "long");
        emit(run, &format!("0.{}", d), "long");
        emit(run, &format!("0.{}1{}e{}", "0".repeat(len), d, len), "long");
        emit(run, &format!("1{}.{}E-{}", d, d, len + 300), "long");
        emit(run, &format!("1e{}", "9".repeat(len)), "long");
        emit(run, &format!("1e-{}", "9".repeat(len)), "long");
    }
    // observation N3 (audit 3, M2): `dec2flt::parse::parse_scientific` stops accumulating exponent digits once the
    // accumulated magnitude has reached 0x10000 (`if exponent < 0x10000 { exponent = 10 * exponent + digit }`), so a
    // mantissa of ≈ 65 000 digits and more meets a capped exponent: `0.` + 65 299 zeros + `1e655360` denotes 1e590060
    // (nearest REAL: inf) and is read as 1e236. The model (`DecFloat.capDigitsVal`) does the same; texts of ≈ 66 KB.
    for (zeros, exp) in [(65299usize, "655360"), (65299, "65536"), (65299, "65535"), (65299, "65537"), (65299, "000655369"), (65535, "65536"), (65535, "655360"), (65535, "99999"), (65535, "999990")] {
        emit(run, &format!("0.{}1e{}", "0".repeat(zeros), exp), "capped-exponent");
    }
    for (zeros, exp) in [(65500usize, "655360"), (65500, "65536"), (65500, "65535"), (65859, "655360")] {
        emit(run, &format!("1{}e-{}", "0".repeat(zeros), exp), "capped-exponent");
        emit(run, &format!("-1{}.5E-{}", "0".repeat(zeros), exp), "capped-exponent");
    }
    for i in 0..n {
        match i % 8 {
            0 | 1 => {
                // halfway between two adjacent doubles, exactly and nudged
                let b = interesting_bits(rng);
                let b = if b >= 0x7fef_ffff_ffff_ffff { 0x7fef_ffff_ffff_fffe + rng.below(2) as u64 } else { b };
                let mid = midpoint_above(b);
                let sign = if rng.chance(1, 4) { "-" } else { "" };
                emit(run, &format!("{}{}", sign, mid), "midpoint");
                let t = nudge(rng, &mid);
                emit(run, &format!("{}{}", sign, t), "midpoint-nudged");
                if rng.chance(1, 2) {
                    let shift = rng.range(-30, 330) as i32;
                    emit(run, &format!("{}{}", sign, with_exponent(&mid, shift, rng.chance(1, 2))), "midpoint-exp");
                }
            }
            2 => {
                // the exact expansion of a double, and its shortest round-trip rendering
                let b = interesting_bits(rng);
                let (m, e) = decompose(b);
                let ex = exact_decimal(m, e);
                emit(run, &ex, "exact");
                emit(run, &nudge(rng, &ex), "exact-nudged");
                let v = f64::from_bits(b);
                emit(run, &format!("{}", v), "display");
                emit(run, &format!("{:e}", v), "display-exp");
                emit(run, &format!("{:?}", v), "debug");
            }
            3 => {
                // 17 significant digits and an exponent near a threshold
                let mant: String = (0..1 + rng.below(20)).map(|k| if k == 0 { (b'1' + rng.below(9) as u8) as char } else { (b'0' + rng.below(10) as u8) as char }).collect();
                let e = match rng.below(4) { 0 => 290 + rng.below(30) as i64, 1 => -(300 + rng.below(50) as i64), 2 => rng.range(-30, 30), _ => rng.range(-400, 400) };
                let body = if mant.len() > 1 && rng.chance(2, 3) { format!("{}.{}", &mant[..1], &mant[1..]) } else { mant.clone() };
                emit(run, &format!("{}e{}", body, e), "threshold");
            }
            4 => {
                // integers around 2^53 .. 2^64 and beyond (the INT / REAL boundary)
                let k = 50 + rng.below(20);
                let base: u128 = 1u128 << k;
                let v = base.wrapping_add(rng.below(5) as u128).wrapping_sub(2) + if rng.chance(1, 2) { (rng.next() as u128) % base } else { 0 };
                emit(run, &v.to_string(), "bigint");
                emit(run, &format!("{}.0", v), "bigint");
                emit(run, &format!("{}.5", v), "bigint");
            }
            5 => {
                let t = gen_plain(rng);
                emit(run, &mutate(rng, &t), "mutated");
            }
            _ => emit(run, &gen_plain(rng), "plain"),
        }
    }
}

// ---------------------------------------------------------------------------------------------
// REAL arithmetic: Rust's `a + b`, `a - b`, `a * b`, `a / b`, `a.sqrt()`, `i as f64` (the IEEE-754 operations of the
// hardware) against the exact integer arithmetic of the Lean model (`Model/FloatArith.lean`), bit for bit (a NaN result is
// compared as "NaN": payload and sign canonicalised). Driver kind `f64arith`.
// ---------------------------------------------------------------------------------------------

fn canon_bits(f: f64) -> u64 { if f.is_nan() { 0x7ff8000000000000 } else { f.to_bits() } }

const SPECIAL_BITS: &[u64] = &[0, 0x8000000000000000, 1, 0x8000000000000001, 2, 0x000fffffffffffff, 0x0010000000000000, 0x0010000000000001, 0x001fffffffffffff,
    0x3ff0000000000000, 0xbff0000000000000, 0x3ff0000000000001, 0x3fefffffffffffff, 0x4000000000000000, 0x3fe0000000000000, 0x4008000000000000, 0x4024000000000000,
    0x4340000000000000, 0x433fffffffffffff, 0x4340000000000001, 0x4330000000000000, 0x7fefffffffffffff, 0xffefffffffffffff, 0x7fe0000000000000, 0x7fdfffffffffffff,
    0x7ff0000000000000, 0xfff0000000000000, 0x7ff8000000000000, 0xfff8000000000000, 0x7ff0000000000001, 0x7fffffffffffffff, 0xfff4000000000000,
    0x3fb999999999999a, 0x3fc999999999999a, 0x3fd3333333333333, 0x4002000000000000, 0x5fe0000000000000, 0x1ff0000000000000, 0x2000000000000000, 0x3ca0000000000000, 0x3cb0000000000000];

fn arith_operand(rng: &mut Rng) -> u64 {
    match rng.below(6) {
        0 => *rng.pick(SPECIAL_BITS),
        1 => interesting_bits(rng) | if rng.chance(1, 2) { 1u64 << 63 } else { 0 },
        2 => ((rng.range(-40, 40) as f64) * 0.25).to_bits(),
        3 => (rng.range(-1_000_000, 1_000_000) as f64).to_bits(),
        _ => rng.next(),
    }
}

fn emit_arith(run: &mut Run, op: &str, a: u64, b: u64, origin: &str) {
    let (x, y) = (f64::from_bits(a), f64::from_bits(b));
    let r = match op { "add" => x + y, "sub" => x - y, "mul" => x * y, "div" => x / y, _ => unreachable!() };
    let kind = if r.is_nan() { "nan" } else if r.is_infinite() { "inf" } else if r == 0.0 { "zero" } else if r.abs() < f64::MIN_POSITIVE { "subnormal" } else { "normal" };
    run.count(&format!("f64arith:{}:{}", op, kind));
    run.case_with_desc(format!("f64arith {} {} {}", op, a, b), format!("ok {}", canon_bits(r)), format!("f64arith:{}:{}:{}", origin, op, kind),
        format!("f64::from_bits({:#x}) {} f64::from_bits({:#x})", a, op, b));
}

fn emit_sqrt(run: &mut Run, a: u64, origin: &str) {
    let r = f64::from_bits(a).sqrt();
    run.count("f64arith:sqrt");
    run.case_with_desc(format!("f64arith sqrt {}", a), format!("ok {}", canon_bits(r)), format!("f64arith:{}:sqrt:{}", origin, if r.is_nan() { "nan" } else { "value" }), format!("f64::from_bits({:#x}).sqrt()", a));
}

fn emit_ofint(run: &mut Run, i: i64, origin: &str) {
    run.count("f64arith:ofint");
    run.case_with_desc(format!("f64arith ofint {}", i), format!("ok {}", (i as f64).to_bits()), format!("f64arith:{}:ofint", origin), format!("{} as f64", i));
}

pub fn arith_stream(run: &mut Run, rng: &mut Rng, n: usize) {
    const OPS: &[&str] = &["add", "sub", "mul", "div"];
    // every pair of special patterns under every operation
    for a in SPECIAL_BITS { for b in SPECIAL_BITS { for op in OPS { if rng.chance(1, 2) || *a >= 0x7ff0000000000000 || *b == 0 { emit_arith(run, op, *a, *b, "special"); } } } }
    for a in SPECIAL_BITS { emit_sqrt(run, *a, "special"); }
    for i in [0i64, 1, -1, i64::MAX, i64::MIN, i64::MAX - 1, i64::MIN + 1, (1 << 53) - 1, 1 << 53, (1 << 53) + 1, (1 << 53) + 2, (1 << 53) + 3, -(1 << 53) - 1, (1 << 54) + 2, (1 << 54) + 6, (1 << 62) + (1 << 9), (1 << 62) + (1 << 9) + 1, 1000, 719163 * 86400000] { emit_ofint(run, i, "special"); }
    for i in 0..n {
        match i % 10 {
            0 => {
                // halfway sums: b is half a unit in the last place of a (the sum is a tie), and its neighbours
                let a = interesting_bits(rng);
                let ef = (a >> 52) & 0x7ff;
                if ef >= 54 && ef < 0x7ff {
                    let half = (ef - 53) << 52;       // 2^(e-53) = half an ulp of a
                    for d in [0i64, 1, -1] { let b = (half as i64 + d) as u64; emit_arith(run, "add", a, b, "halfway"); emit_arith(run, "sub", a, b, "halfway"); emit_arith(run, "add", a | (1 << 63), b, "halfway"); }
                }
            }
            1 => {
                // cancellation: operands agreeing in most leading bits
                let a = interesting_bits(rng);
                let b = a ^ (rng.next() & ((1u64 << rng.below(30)) - 1));
                emit_arith(run, "sub", a, b, "cancel"); emit_arith(run, "add", a, b | (1 << 63), "cancel"); emit_arith(run, "div", a, b, "cancel");
            }
            2 => {
                // products / quotients at the overflow and underflow thresholds
                let a = (((rng.below(2046) + 1) as u64) << 52) | (rng.next() & ((1u64 << 52) - 1));
                let ea = ((a >> 52) & 0x7ff) as i64;
                let target = *rng.pick(&[2046i64, 2047, 2045, 1, 0, -1, -30, -52, -53, -54]);
                let eb_mul = target - ea + 1023; let eb_div = ea - target + 1023;
                for eb in [eb_mul, eb_div] { if eb >= 0 && eb < 2047 { let b = ((eb as u64) << 52) | (rng.next() & ((1u64 << 52) - 1)); emit_arith(run, "mul", a, b, "threshold"); emit_arith(run, "div", a, b, "threshold"); } }
            }
            3 => { let a = arith_operand(rng) & 0x7fff_ffff_ffff_ffff; emit_sqrt(run, a, "random"); let k = rng.below(2001) as u64; emit_sqrt(run, ((k * k) as f64).to_bits(), "square");
                   let r = f64::from_bits(interesting_bits(rng)); let sq = r * r; if sq.is_finite() { emit_sqrt(run, sq.to_bits(), "squared"); emit_sqrt(run, sq.to_bits() + 1, "squared"); emit_sqrt(run, sq.to_bits().wrapping_sub(1), "squared"); } }
            4 => { let i = match rng.below(4) { 0 => rng.next() as i64, 1 => (1i64 << (52 + rng.below(11))) + rng.range(-3, 3), 2 => -((1i64 << (52 + rng.below(11))) + rng.range(-3, 3)), _ => rng.range(-1_000_000, 1_000_000) }; emit_ofint(run, i, "random"); }
            5 => {
                // subnormal operands and results
                let a = rng.next() & ((1u64 << 52) - 1) | if rng.chance(1, 2) { 1 << 63 } else { 0 };
                let b = match rng.below(3) { 0 => rng.next() & ((1u64 << 53) - 1), 1 => arith_operand(rng), _ => ((1023 - rng.below(60) as u64) << 52) | (rng.next() & ((1u64 << 52) - 1)) };
                for op in OPS { emit_arith(run, op, a, b, "subnormal"); }
                emit_arith(run, "div", b, a, "subnormal");
            }
            _ => { let (a, b) = (arith_operand(rng), arith_operand(rng)); let op = *rng.pick(OPS); emit_arith(run, op, a, b, "random"); }
        }
    }
}
