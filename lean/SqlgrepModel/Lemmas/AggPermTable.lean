import SqlgrepModel.Lemmas.AggPerm
/-
C15, table level: the specification's table is invariant under permutations of the input rows (`table_perm`), and
the building blocks of "the result over a concatenation is the key-wise combination of the results over the parts".
-/
set_option linter.unusedSimpArgs false
namespace Sqlgrep
open Value Spec.Agg

/-! ### permuting the input rows -/

theorem keyedRows_perm (O : Oracles) (q : AggStmt) {e1 e2 : List Env} (h : e1.Perm e2) :
    OptPerm (keyedRows O q e1) (keyedRows O q e2) := by
  induction h with
  | nil => exact OptPerm.refl _
  | @cons x m1 m2 _ ih =>
    simp only [keyedRows]
    cases passes O q x with
    | none => trivial
    | some b =>
      cases b with
      | false => exact ih
      | true =>
        cases keyOf O q x with
        | none => simp [OptPerm]
        | some k =>
          cases h1 : keyedRows O q m1 <;> cases h2 : keyedRows O q m2 <;> simp [h1, h2, OptPerm] at ih ⊢
          exact ih
  | swap x y l =>
    simp only [keyedRows]
    cases hx : passes O q x with
    | none => cases passes O q y with
      | none => trivial
      | some b => cases b <;> simp [OptPerm] <;> (cases keyOf O q y <;> cases keyedRows O q l <;> simp [hx])
    | some bx =>
      cases hy : passes O q y with
      | none => cases bx <;> simp [OptPerm] <;> (cases keyOf O q x <;> cases keyedRows O q l <;> simp [hy])
      | some by' =>
        cases bx <;> cases by' <;> simp only [hx, hy]
        · exact OptPerm.refl _
        · exact OptPerm.refl _
        · exact OptPerm.refl _
        · cases keyOf O q x <;> cases keyOf O q y <;> cases keyedRows O q l <;> simp [OptPerm, hx, hy]
          exact List.Perm.swap _ _ _
  | trans _ _ ih1 ih2 => exact OptPerm.trans ih1 ih2

theorem arguments_perm (O : Oracles) (q : AggStmt) (kind : AggKind) {g1 g2 : List Env} (h : g1.Perm g2) :
    OptPerm (arguments O q kind g1) (arguments O q kind g2) := collect_perm (h.map _)

/-- what C15 grants for statement `q` on the admitted rows `rows`: only order-insensitive aggregates; in every group,
values picked by order are exact and sums do not depend on the order -/
structure PermSafe (O : Oracles) (q : AggStmt) (rows : List (List Value × Env)) : Prop where
  kinds : ∀ kind ∈ slotKinds q, orderInsensitive kind = true
  groups : ∀ k kind vs, kind ∈ slotKinds q → arguments O q kind (rowsOfKey k rows) = some vs →
    (usesOrder kind = true → ValuesExact (nonNull vs)) ∧ (usesSums kind = true → SumsOrderFree (nonNull vs))

theorem groupValue_perm {O : Oracles} {q : AggStmt} {kind : AggKind} {g1 g2 : List Env} (h : g1.Perm g2)
    (hk : orderInsensitive kind = true)
    (hs : ∀ vs, arguments O q kind g1 = some vs →
      (usesOrder kind = true → ValuesExact (nonNull vs)) ∧ (usesSums kind = true → SumsOrderFree (nonNull vs))) :
    groupValue O q kind g1 = groupValue O q kind g2 := by
  unfold groupValue
  have ha := arguments_perm O q kind h
  cases h1 : arguments O q kind g1 with
  | none =>
    cases h2 : arguments O q kind g2 with
    | none => rfl
    | some _ => rw [h1, h2] at ha; simp [OptPerm] at ha
  | some vs =>
    obtain ⟨ws, hws, hp⟩ := optPerm_some_left (h1 ▸ ha)
    simp only [hws, Option.bind_some]
    exact aggregate_perm kind hp hk (hs vs h1).1 (hs vs h1).2

theorem perGroup_perm {O : Oracles} {q : AggStmt} {k : List Value} {g1 g2 : List Env} (h : g1.Perm g2)
    (hk : ∀ kind ∈ slotKinds q, orderInsensitive kind = true)
    (hs : ∀ kind vs, kind ∈ slotKinds q → arguments O q kind g1 = some vs →
      (usesOrder kind = true → ValuesExact (nonNull vs)) ∧ (usesSums kind = true → SumsOrderFree (nonNull vs))) :
    perGroup O q (k, g1) = perGroup O q (k, g2) := by
  have hgv : ∀ kind ∈ slotKinds q, groupValue O q kind g1 = groupValue O q kind g2 :=
    fun kind hkind => groupValue_perm h (hk kind hkind) (fun vs hvs => hs kind vs hkind hvs)
  have hrow : row O q k g1 = row O q k g2 := by
    unfold row
    congr 1
    apply List.map_congr_left
    intro item hitem
    by_cases hkey : ∃ e c, item.kind = .groupKey e c
    · obtain ⟨e, c, he⟩ := hkey
      simp only [cell, he]
    · have hk' : ∀ e c, item.kind ≠ .groupKey e c := fun e c he => hkey ⟨e, c, he⟩
      rw [cell_nonkey O q k g1 item hk', cell_nonkey O q k g2 item hk']
      rw [hgv item.kind (by simp only [slotKinds, List.mem_append, List.mem_map]; exact Or.inl ⟨item, hitem, rfl⟩)]
  have hacc : accept O q k g1 = accept O q k g2 := by
    unfold accept
    cases q.having with
    | none => rfl
    | some hx =>
      simp only
      have : q.havingAggs.map (fun (x : Nat × AggKind) => (groupValue O q x.2 g1).map (fun v => (x.1, v))) =
          q.havingAggs.map (fun (x : Nat × AggKind) => (groupValue O q x.2 g2).map (fun v => (x.1, v))) := by
        apply List.map_congr_left
        intro p hp
        rw [hgv p.2 (by simp only [slotKinds, List.mem_append, List.mem_map]; exact Or.inr ⟨p, hp, rfl⟩)]
      rw [this]
  simp only [perGroup, hrow, hacc]

theorem distinctKeys_perm {ks1 ks2 : List (List Value)} (h : ks1.Perm ks2) (hex : KeysExact ks1) :
    distinctKeys ks1 = distinctKeys ks2 := by
  have hex2 : KeysExact ks2 := fun a ha b hb hab => hex a (h.mem_iff.mpr ha) b (h.mem_iff.mpr hb) hab
  apply sorted_ext (distinctKeys_sorted _) (distinctKeys_sorted _)
  intro x
  rw [distinctKeys_mem_iff hex, distinctKeys_mem_iff hex2]
  exact h.mem_iff

theorem rowsOfKey_perm (k : List Value) {r1 r2 : List (List Value × Env)} (h : r1.Perm r2) :
    (rowsOfKey k r1).Perm (rowsOfKey k r2) := (h.filter _).map _

/-- the specification's table does not depend on the order of the admitted rows -/
theorem tableOfRows_perm {O : Oracles} {q : AggStmt} {r1 r2 : List (List Value × Env)} (h : r1.Perm r2)
    (hex : KeysExact (r1.map (·.1))) (hsafe : PermSafe O q r1) :
    tableOfGroups O q (groups r1) = tableOfGroups O q (groups r2) := by
  rw [tableOfGroups_eq, tableOfGroups_eq]
  have hkeys : distinctKeys (r1.map (·.1)) = distinctKeys (r2.map (·.1)) := distinctKeys_perm (h.map _) hex
  have hmap : (groups r1).map (perGroup O q) = (groups r2).map (perGroup O q) := by
    simp only [groups, List.map_map, hkeys]
    apply List.map_congr_left
    intro k _
    simp only [Function.comp]
    exact perGroup_perm (rowsOfKey_perm k h) hsafe.kinds (fun kind vs hkind hvs => hsafe.groups k kind vs hkind hvs)
  rw [hmap]

/-- **`agg_perm_invariant` on the specification**: permuting the input rows does not change the table -/
theorem table_perm {O : Oracles} {q : AggStmt} {e1 e2 : List Env} (h : e1.Perm e2)
    (hsafe : ∀ rows, keyedRows O q e1 = some rows → PermSafe O q rows) :
    table O q e1 = table O q e2 := by
  unfold table
  have hk := keyedRows_perm O q h
  cases h1 : keyedRows O q e1 with
  | none =>
    cases h2 : keyedRows O q e2 with
    | none => rfl
    | some _ => rw [h1, h2] at hk; simp [OptPerm] at hk
  | some r1 =>
    obtain ⟨r2, hr2, hp⟩ := optPerm_some_left (h1 ▸ hk)
    simp only [hr2]
    have hall : r1.all (fun r => r.1.all simpleValue) = r2.all (fun r => r.1.all simpleValue) := hp.all_eq
    rw [← hall]
    by_cases hc : (!keyRefsValid q || !r1.all (fun r => r.1.all simpleValue)) = true
    · simp [hc]
    · simp only [hc, Bool.false_eq_true, if_false]
      simp only [Bool.or_eq_true, Bool.not_eq_true', not_or, Bool.not_eq_false] at hc
      exact tableOfRows_perm hp (keysExact_of_simple hc.2) (hsafe r1 h1)

/-! ### concatenating two inputs -/

theorem keyedRows_append (O : Oracles) (q : AggStmt) (e1 e2 : List Env) {r1 r2 : List (List Value × Env)}
    (h1 : keyedRows O q e1 = some r1) (h2 : keyedRows O q e2 = some r2) : keyedRows O q (e1 ++ e2) = some (r1 ++ r2) := by
  induction e1 generalizing r1 with
  | nil => simp [keyedRows] at h1; subst h1; simpa using h2
  | cons x xs ih =>
    simp only [keyedRows, List.cons_append] at h1 ⊢
    cases hp : passes O q x with
    | none => simp [hp] at h1
    | some b =>
      cases b with
      | false => simp only [hp] at h1 ⊢; exact ih h1
      | true =>
        simp only [hp] at h1 ⊢
        cases hk : keyOf O q x with
        | none => simp [hk] at h1
        | some k =>
          cases hr : keyedRows O q xs with
          | none => simp [hk, hr] at h1
          | some more =>
            simp only [hk, hr, Option.some.injEq] at h1
            subst h1
            simp [ih hr]

theorem collect_append {α : Type} {a b : List (Option α)} {x y : List α} (ha : collect a = some x) (hb : collect b = some y) :
    collect (a ++ b) = some (x ++ y) := by
  induction a generalizing x with
  | nil => simp [collect] at ha; subst ha; simpa using hb
  | cons o os ih =>
    cases o with
    | none => simp [collect] at ha
    | some v =>
      obtain ⟨x', hx', hx⟩ := collect_eq_some_cons ha
      subst hx
      simp only [List.cons_append, collect_cons_some, ih hx', Option.map_some]

theorem arguments_append {O : Oracles} {q : AggStmt} {kind : AggKind} {g1 g2 : List Env} {v1 v2 : List Value}
    (h1 : arguments O q kind g1 = some v1) (h2 : arguments O q kind g2 = some v2) :
    arguments O q kind (g1 ++ g2) = some (v1 ++ v2) := by
  unfold arguments at *
  rw [List.map_append]
  exact collect_append h1 h2

theorem nonNull_append (a b : List Value) : nonNull (a ++ b) = nonNull a ++ nonNull b := by
  simp [nonNull, List.filter_append]

theorem intSum_append (a b : List Int) : intSum (a ++ b) = intSum a + intSum b := by
  have : ∀ (l : List Int) (s : Int), l.foldl (· + ·) s = s + l.foldl (· + ·) 0 := by
    intro l
    induction l with
    | nil => intro s; simp
    | cons x xs ih => intro s; simp only [List.foldl_cons]; rw [ih (s + x), ih (0 + x)]; omega
  simp only [intSum, List.foldl_append]
  rw [this b]

theorem cmp_lt_trans {a b c : Value} (h1 : Value.cmp a b = .lt) (h2 : Value.cmp b c = .lt) : Value.cmp a c = .lt :=
  (cmp_T a b c).1 h1 h2

theorem cmp_gt_iff_lt {a b : Value} : Value.cmp a b = .gt ↔ Value.cmp b a = .lt := by
  rw [cmp_swap b a]
  cases Value.cmp b a <;> simp [Ordering.swap]

theorem cmp_gt_trans {a b c : Value} (h1 : Value.cmp a b = .gt) (h2 : Value.cmp b c = .gt) : Value.cmp a c = .gt := by
  rw [cmp_gt_iff_lt] at *
  exact cmp_lt_trans h2 h1

/-- one step of the running extreme -/
def exStep (wantLess : Bool) (cur v : Value) : Value :=
  if Value.cmp v cur == (if wantLess then Ordering.lt else Ordering.gt) then v else cur

theorem extreme_cons (wantLess : Bool) (x : Value) (xs : List Value) :
    extreme wantLess (x :: xs) = xs.foldl (exStep wantLess) x := rfl

theorem better_trans (wantLess : Bool) {a b c : Value}
    (h1 : (Value.cmp a b == (if wantLess then Ordering.lt else Ordering.gt)) = true)
    (h2 : (Value.cmp b c == (if wantLess then Ordering.lt else Ordering.gt)) = true) :
    (Value.cmp a c == (if wantLess then Ordering.lt else Ordering.gt)) = true := by
  cases wantLess
  · simp only [Bool.false_eq_true, if_false, beq_iff_eq] at *; exact cmp_gt_trans h1 h2
  · simp only [if_true, beq_iff_eq] at *; exact cmp_lt_trans h1 h2

theorem notBetter_trans (wantLess : Bool) {a b c : Value}
    (h1 : (Value.cmp a b == (if wantLess then Ordering.lt else Ordering.gt)) = false)
    (h2 : (Value.cmp b c == (if wantLess then Ordering.lt else Ordering.gt)) = false) :
    (Value.cmp a c == (if wantLess then Ordering.lt else Ordering.gt)) = false := by
  cases wantLess
  · simp only [Bool.false_eq_true, if_false, beq_eq_false_iff_ne, ne_eq] at *; exact cmp_ne_gt_trans h1 h2
  · simp only [if_true, beq_eq_false_iff_ne, ne_eq] at *; exact cmp_ne_lt_trans h1 h2

/-- folding more values into a running extreme `a`: the result is the extreme of the new values if that beats `a`, else `a` -/
theorem exFold_step (wantLess : Bool) (ys : List Value) : ∀ a y : Value,
    ys.foldl (exStep wantLess) (exStep wantLess a y) =
      if Value.cmp (ys.foldl (exStep wantLess) y) a == (if wantLess then Ordering.lt else Ordering.gt)
      then ys.foldl (exStep wantLess) y else a := by
  induction ys with
  | nil => intro a y; simp [exStep]
  | cons z zs ih =>
    intro a y
    simp only [List.foldl_cons]
    have e1 := ih (exStep wantLess a y) z
    have e2 := ih y z
    simp only [e1, e2]
    generalize zs.foldl (exStep wantLess) z = W
    cases hya : Value.cmp y a == (if wantLess then Ordering.lt else Ordering.gt)
    · -- y does not beat a
      simp only [exStep, hya, Bool.false_eq_true, if_false]
      cases hWy : Value.cmp W y == (if wantLess then Ordering.lt else Ordering.gt)
      · simp only [Bool.false_eq_true, if_false, hya]
        rw [notBetter_trans wantLess hWy hya]; simp
      · simp only [if_true]
    · -- y beats a
      simp only [exStep, hya, if_true]
      cases hWy : Value.cmp W y == (if wantLess then Ordering.lt else Ordering.gt)
      · simp only [Bool.false_eq_true, if_false, hya, if_true]
      · simp only [if_true, better_trans wantLess hWy hya]

/-- **minima and maxima combine**: the extreme of a concatenation of two non-empty lists is the second part's extreme
if that beats the first part's, otherwise the first part's (the first on a tie) -/
theorem extreme_append (wantLess : Bool) (x : Value) (xs : List Value) (y : Value) (ys : List Value) :
    extreme wantLess ((x :: xs) ++ (y :: ys)) =
      if Value.cmp (extreme wantLess (y :: ys)) (extreme wantLess (x :: xs)) == (if wantLess then Ordering.lt else Ordering.gt)
      then extreme wantLess (y :: ys) else extreme wantLess (x :: xs) := by
  simp only [List.cons_append, extreme_cons, List.foldl_append, List.foldl_cons]
  exact exFold_step wantLess ys _ y

/-! #### sums of a concatenation -/

theorem ints_map_int (l : List Int) : ints (l.map Value.int) = some l := by
  induction l with
  | nil => rfl
  | cons x xs ih => simp only [ints, List.map_cons, asInt, collect_cons_some] at ih ⊢; rw [ih]; rfl

theorem reals_map_real (l : List Nat) : reals (l.map Value.real) = some l := by
  induction l with
  | nil => rfl
  | cons x xs ih => simp only [reals, List.map_cons, asReal, collect_cons_some] at ih ⊢; rw [ih]; rfl

/-- SUM over INT values: NULL for none, else their sum (when no partial sum overflows) -/
def intSumValue (is : List Int) : Value := if is.isEmpty then .null else .int (intSum is)

theorem sumOf_ints (is : List Int) (hok : partialSumsOk inI64 0 is = true) :
    sumOf (is.map Value.int) = some (intSumValue is) := by
  cases is with
  | nil => rfl
  | cons i is' =>
    have := ints_map_int (i :: is')
    simp only [List.map_cons] at this
    simp only [sumOf, List.map_cons, this, hok, if_true, intSumValue, List.isEmpty_cons, Bool.false_eq_true, if_false]

/-- combination of two partial sums: NULL is neutral -/
def mergeSum : Value → Value → Value
  | .null, x => x
  | x, .null => x
  | .int a, .int b => .int (a + b)
  | .real a, .real b => .real (F64.add a b)
  | .interval a, .interval b => .interval (a + b)
  | x, _ => x

theorem intSumValue_append (a b : List Int) : intSumValue (a ++ b) = mergeSum (intSumValue a) (intSumValue b) := by
  cases a with
  | nil => cases b <;> simp [intSumValue, mergeSum]
  | cons x xs =>
    cases b with
    | nil => simp [intSumValue, mergeSum]
    | cons y ys =>
      simp only [intSumValue, List.cons_append, List.isEmpty_cons, Bool.false_eq_true, if_false, mergeSum]
      rw [← List.cons_append, intSum_append]

end Sqlgrep
