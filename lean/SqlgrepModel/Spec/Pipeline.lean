import SqlgrepModel.Model.Pipeline
import SqlgrepModel.Spec.Select
import SqlgrepModel.Spec.Agg
/-
The END-TO-END specification answer: the executable specifications of the statement level (`Spec.Select`, `Spec.Agg`,
written from the property sentences of C03 C04 C05 C07 C08) applied to what the front half of the pipeline delivers —
the statement lowered from the query text, the tables lowered from the definition text, the rows extracted from the
file bytes. It answers only where those specifications answer (all tables defined, the joined file present, every
line readable, every expression with a value) and travels with the model's answer of every `e2e` case in the text
format (`MODEL ## SPEC ## CLASS`), so a change of the real lowering / extraction / glue that keeps the engine intact
still shows up as "implementation ≠ specification" with the raw texts as the failing input.
-/
namespace Sqlgrep.Spec.Pipeline
open Sqlgrep Sqlgrep.Pipeline

/-- a run whose tables all exist and whose joined file (if any) exists: the engine-level query and inputs -/
structure Prepared where
  qy : Query
  joined : List FileLine
  files : List (List FileLine)

def prepare (F : Facts) (tables : List Table) (stmt : Stmt) (fromTable : String) (join : Option LJoin)
    (files : List (List Nat)) : Option Prepared :=
  match getTable tables fromTable with
  | none => none
  | some t =>
    match files.mapM (fileLines F t.defn) with
    | none => none
    | some fs =>
      match join with
      | none => some { qy := { stmt := stmt, table := t.info, join := none }, joined := [], files := fs }
      | some j =>
        match getTable tables j.joinedTable with
        | none => none
        | some u =>
          match openJoined F j with
          | none => none
          | some bytes =>
            match fileLines F u.defn bytes with
            | none => none
            | some jl => some { qy := { stmt := stmt, table := t.info, join := some (joinInfo j u.info) }, joined := jl, files := fs }

/-- the statement-level specification on the prepared run: its `RunOut` (text records, lines consumed) and the name
of a known deviation class of the implementation (`""` = none) -/
def specRun (F : Facts) (p : Prepared) : Option (RunOut × String) :=
  match p.qy.stmt with
  | .select s => Spec.Select.batch F.eval p.qy s p.joined p.files
  | .aggregate a => Spec.Agg.batch F.eval p.qy a p.joined p.files

/-- the deviating answer an open finding predicts for the prepared run (`Spec.Agg.predicted`; `none` = no finding applies) -/
def predictedRun (F : Facts) (p : Prepared) : Option RunOut :=
  match p.qy.stmt with
  | .select _ => none
  | .aggregate a => Spec.Agg.predicted F.eval p.qy a p.joined p.files

/-- the predicted deviating answer for the texts -/
def predictedText (F : Facts) (defsText queryText : List Char) (files : List (List Nat)) : Option RunOut :=
  match parseText (lexOracles F) (regexValidFn F) defsText, parseText (lexOracles F) (regexValidFn F) queryText with
  | .stmt defs, .stmt query =>
    match addTables defs, stmtOf query with
    | some tables, some (stmt, fromTable, join) => (prepare F tables stmt fromTable join files).bind (predictedRun F)
    | _, _ => none
  | _, _ => none

/-- the specification's answer for the texts (text format, `single_result = false`) -/
def specText (F : Facts) (defsText queryText : List Char) (files : List (List Nat)) : Option (RunOut × String) :=
  match parseText (lexOracles F) (regexValidFn F) defsText, parseText (lexOracles F) (regexValidFn F) queryText with
  | .stmt defs, .stmt query =>
    match addTables defs, stmtOf query with
    | some tables, some (stmt, fromTable, join) => (prepare F tables stmt fromTable join files).bind (specRun F)
    | _, _ => none
  | _, _ => none

end Sqlgrep.Spec.Pipeline
