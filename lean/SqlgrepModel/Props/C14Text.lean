import SqlgrepModel.Model.Pipeline
import SqlgrepModel.Props.C14
import SqlgrepModel.Props.C14Lex
/-
C14 — the sentence for the function a user calls: `parsing::parse(text)` = tokenizer, then parser, then lowering
(`Pipeline.parseText`, the first stage of the end-to-end model `Pipeline.runText` that the `e2e` driver executes).
The stage theorems (`Props/C14Lex.lean`: tokenizer; `Props/C14.lean`: parser and lowering) are composed here:

**for every text, `parseText` ends with a statement or with an error whose location lies inside the text, and an excerpt
of the text near that location can be produced; it never panics and never runs out of fuel.**  The only other answer
is `missing` — the number oracle of the case did not say what `f64::from_str` answers for a number text the tokenizer met —
which cannot occur for an oracle that knows every number text (`parseText_total_of_total_oracle`).
-/
namespace Sqlgrep.Props.C14Text
open Sqlgrep Sqlgrep.Lex Sqlgrep.Parse Sqlgrep.Pipeline

/-- the tokens of a text are not empty -/
theorem tokens_nonempty (lo : Lex.Oracles) (text : List Char) (ts : List PTok) (h : tokenize lo text = .ok ts) :
    ts ≠ [] := by
  rcases C14Lex.tokenize_total lo text with ⟨ts', init, loc, h', he, _⟩ | h' | h'
  · rw [h] at h'; cases h'; rw [he]; simp
  · obtain ⟨loc, e, h', _⟩ := h'; rw [h] at h'; cases h'
  · obtain ⟨w, h', _⟩ := h'; rw [h] at h'; cases h'

/-- **Parsing a text is total and its errors are located inside the text.** -/
theorem parseText_total_located (lo : Lex.Oracles) (rv : List Char → Bool) (text : List Char) :
    (∃ s, parseText lo rv text = .stmt s) ∨
    (∃ loc e, parseText lo rv text = .lexError loc e ∧ Inside text loc) ∨
    (∃ e, parseText lo rv text = .parseError e ∧ Inside text e.loc) ∨
    (∃ e, parseText lo rv text = .convertError e ∧ Inside text e.loc) ∨
    (∃ w, parseText lo rv text = .missing w) := by
  unfold parseText
  cases ht : tokenize lo text with
  | error loc e => exact .inr (.inl ⟨loc, e, rfl, C14Lex.error_location_inside lo text loc e ht⟩)
  | missing w => exact .inr (.inr (.inr (.inr ⟨_, rfl⟩)))
  | ok ts =>
    have hne := tokens_nonempty lo text ts ht
    have hin := C14Lex.token_locations_inside lo text ts ht
    have hloc : ∀ l, l ∈ ts.map (·.loc) → Inside text l := by
      intro l hl
      obtain ⟨p, hp, rfl⟩ := List.mem_map.1 hl
      exact hin p hp
    simp only [parseToks]
    rcases C14.parse_and_lower_total PrecTables.code rv ts hne with ⟨e, he⟩ | ⟨t, htree, hl⟩
    · rw [he]
      exact .inr (.inr (.inl ⟨e, rfl, hloc _ (C14.error_location_is_a_token_location _ ts e he)⟩))
    · rw [htree]
      simp only [lowerTree]
      rcases hl with ⟨s, hs⟩ | ⟨e, he⟩
      · rw [hs]; exact .inl ⟨s, rfl⟩
      · rw [he]
        exact .inr (.inr (.inr (.inl ⟨e, rfl,
          hloc _ (C14.conversion_error_location_is_a_token_location _ rv ts t e htree he)⟩)))

/-- never a panic, never out of fuel -/
theorem parseText_never_panics (lo : Lex.Oracles) (rv : List Char → Bool) (text : List Char) :
    (∀ site, parseText lo rv text ≠ .panic site) ∧ parseText lo rv text ≠ .fuel := by
  rcases parseText_total_located lo rv text with ⟨s, h⟩ | ⟨l, e, h, _⟩ | ⟨e, h, _⟩ | ⟨e, h, _⟩ | ⟨w, h⟩ <;>
    rw [h] <;> exact ⟨fun _ hh => Parsed.noConfusion hh, fun hh => Parsed.noConfusion hh⟩

/-- with a number oracle that answers for every number text (what `f64::from_str` is), the answer is a statement or a
located error -/
theorem parseText_total_of_total_oracle (lo : Lex.Oracles) (ho : ∀ w, lo.fparse w ≠ .missing)
    (rv : List Char → Bool) (text : List Char) :
    (∃ s, parseText lo rv text = .stmt s) ∨
    (∃ loc e, parseText lo rv text = .lexError loc e ∧ Inside text loc) ∨
    (∃ e, parseText lo rv text = .parseError e ∧ Inside text e.loc) ∨
    (∃ e, parseText lo rv text = .convertError e ∧ Inside text e.loc) := by
  rcases parseText_total_located lo rv text with h | h | h | h | ⟨w, h⟩
  · exact .inl h
  · exact .inr (.inl h)
  · exact .inr (.inr (.inl h))
  · exact .inr (.inr (.inr h))
  · exfalso
    unfold parseText at h
    rcases C14Lex.tokenize_total_of_total_oracle lo ho text with ⟨ts, _, _, ht, _, _⟩ | ⟨loc, e, ht, _⟩
    · rw [ht] at h
      have hne := tokens_nonempty lo text ts ht
      simp only [parseToks] at h
      rcases C14.parse_and_lower_total PrecTables.code rv ts hne with ⟨e, he⟩ | ⟨t, htree, hl⟩
      · rw [he] at h; cases h
      · rw [htree] at h
        simp only [lowerTree] at h
        rcases hl with ⟨s, hs⟩ | ⟨e, he⟩
        · rw [hs] at h; cases h
        · rw [he] at h; cases h
    · rw [ht] at h; cases h

/-- … and for every located error the `near …` excerpt exists (`extract_near` never panics, whatever the location) -/
theorem parseText_error_excerpt (lo : Lex.Oracles) (text : List Char) (loc : Loc) :
    ∃ s, extractNear lo loc text = .text s := C14Lex.extract_near_total lo loc text

/-! ### non-vacuity: each kind of answer occurs -/

example : (match parseText Tables.asciiOnly (fun _ => true) "SELECT x FROM t".toList with
  | .stmt _ => true | _ => false) = true := by decide +kernel
example : (match parseText Tables.asciiOnly (fun _ => true) "SELECT 1.2.3".toList with
  | .lexError ⟨0, 10⟩ .alreadyHasDot => true | _ => false) = true := by decide +kernel
example : (match parseText Tables.asciiOnly (fun _ => true) "SELECT FROM".toList with
  | .parseError _ => true | _ => false) = true := by decide +kernel
example : (match parseText Tables.asciiOnly (fun _ => true) "SELECT nosuchfunction(x) FROM t".toList with
  | .convertError _ => true | _ => false) = true := by decide +kernel

end Sqlgrep.Props.C14Text
