import SqlgrepModel.Lemmas.DecFloat
/-
`DecFloat.parseF64` on the classic hard inputs of decimal → binary64 conversion, evaluated by the kernel
(`decide +kernel`: exact big-number arithmetic, no floating point). The expected patterns are what
`str::parse::<f64>()` answers (the `f64parse` stream of `harness/src/f64cases.rs` compares thousands more per run).
-/
namespace Sqlgrep
namespace DecFloat

/-- `parseF64` of a string literal -/
def pf (s : String) : Option Nat := parseF64 s.toList

example : pf "0.1" = some 0x3fb999999999999a := by decide +kernel
example : pf "0.3" = some 0x3fd3333333333333 := by decide +kernel
example : pf "1e23" = some 0x44b52d02c7e14af6 := by decide +kernel                       -- below the midpoint by 2^-30 ulp
example : pf "8.5e22" = some 0x44b1ffdbf6b2b2eb := by decide +kernel
/-- `2^53 + 1` is a tie: to even (`2^53`); the next odd integer goes up -/
example : pf "9007199254740993" = some 0x4340000000000000 := by decide +kernel
example : pf "9007199254740995" = some 0x4340000000000002 := by decide +kernel
example : pf "9007199254740993.0000000000000000000000001" = some 0x4340000000000001 := by decide +kernel
/-- the value that hung PHP and Java (the largest subnormal, approached from above) -/
example : pf "2.2250738585072011e-308" = some 0x000fffffffffffff := by decide +kernel
example : pf "2.2250738585072012e-308" = some 0x0010000000000000 := by decide +kernel
example : pf "2.2250738585072014e-308" = some 0x0010000000000000 := by decide +kernel    -- smallest normal
/-- the smallest subnormal, and half of it: `2^-1075 = 2.4703282292062327208…e-324` -/
example : pf "4.9e-324" = some 1 := by decide +kernel
example : pf "5e-324" = some 1 := by decide +kernel
example : pf "3e-324" = some 1 := by decide +kernel
example : pf "2.4703282292062327e-324" = some 0 := by decide +kernel                     -- just below half: 0
example : pf "2.4703282292062328e-324" = some 1 := by decide +kernel                     -- just above half
example : pf "7.4109846876186981e-324" = some 1 := by decide +kernel                     -- just below 1.5 units
example : pf "7.4109846876186982e-324" = some 2 := by decide +kernel
/-- the largest finite REAL and the overflow threshold `(2^54 − 1) · 2^970 = 1.797693134862315807937…e308` -/
example : pf "1.7976931348623157e308" = some 0x7fefffffffffffff := by decide +kernel
example : pf "1.7976931348623158e308" = some 0x7fefffffffffffff := by decide +kernel
example : pf "1.797693134862315807e308" = some 0x7fefffffffffffff := by decide +kernel
example : pf "1.797693134862315808e308" = some 0x7ff0000000000000 := by decide +kernel
example : pf "1.7976931348623159e308" = some 0x7ff0000000000000 := by decide +kernel
example : pf "1e400" = some 0x7ff0000000000000 := by decide +kernel
example : pf "-1e400" = some 0xfff0000000000000 := by decide +kernel
example : pf "1e-400" = some 0 := by decide +kernel
example : pf "-1e-400" = some 0x8000000000000000 := by decide +kernel
example : pf "-0.0" = some 0x8000000000000000 := by decide +kernel
example : pf "-0" = some 0x8000000000000000 := by decide +kernel
example : pf "0e99999999999999999999999999" = some 0 := by decide +kernel
/-- exponents with dozens of digits cost nothing (the clamps of `decToF64`) -/
example : pf "1e99999999999999999999999999999999999999" = some 0x7ff0000000000000 := by decide +kernel
example : pf "1e-99999999999999999999999999999999999999" = some 0 := by decide +kernel
/-- the grammar: what is and what is not a number -/
example : pf "5." = some 0x4014000000000000 := by decide +kernel
example : pf ".5" = some 0x3fe0000000000000 := by decide +kernel
example : pf "1.e5" = some 0x40f86a0000000000 := by decide +kernel
example : pf "+1.5E+3" = some 0x4097700000000000 := by decide +kernel
example : pf "inf" = some 0x7ff0000000000000 := by decide +kernel
example : pf "-Infinity" = some 0xfff0000000000000 := by decide +kernel
example : pf "NaN" = some 0x7ff8000000000000 := by decide +kernel
example : pf "-nan" = some 0xfff8000000000000 := by decide +kernel
example : [pf "", pf ".", pf "e5", pf ".e5", pf "1e", pf "1e+", pf " 1", pf "1 ", pf "1_0", pf "0x10", pf "+-1", pf "1e5.5",
    pf "infinit", pf "nan0", pf "1.5.5", pf "١"] = List.replicate 16 none := by decide +kernel

/-- an 800-digit mantissa (as character codes): beyond the REAL range as an integer, an ordinary number when scaled back -/
def digits800 : List Nat :=
  [49, 53, 50, 54, 48, 49, 56, 49, 53, 57, 48, 56, 51, 48, 49, 54, 54, 49, 51, 49, 56, 54, 48, 57, 49, 51, 57, 48, 57, 57, 54, 48, 51, 48, 56, 50, 52,
  54, 50, 56, 49, 57, 52, 56, 50, 49, 57, 57, 51, 53, 49, 56, 49, 57, 48, 57, 51, 55, 56, 54, 53, 55, 57, 55, 53, 52, 51, 50, 51, 49, 57, 52, 56, 55,
  53, 55, 52, 57, 49, 49, 56, 54, 50, 53, 50, 55, 54, 48, 49, 56, 57, 53, 53, 53, 57, 55, 57, 55, 49, 49, 52, 55, 49, 48, 52, 57, 55, 52, 54, 53, 48,
  55, 53, 50, 57, 49, 55, 48, 51, 52, 50, 51, 54, 54, 55, 49, 50, 55, 54, 56, 52, 50, 54, 56, 52, 54, 53, 54, 51, 50, 49, 50, 50, 51, 51, 48, 55, 57,
  50, 52, 52, 48, 50, 54, 56, 53, 57, 57, 53, 50, 56, 57, 48, 55, 56, 54, 54, 54, 54, 49, 55, 54, 48, 51, 49, 51, 55, 50, 49, 53, 57, 48, 49, 48, 57,
  50, 56, 49, 53, 57, 48, 49, 51, 57, 54, 50, 52, 53, 57, 53, 55, 49, 49, 55, 55, 55, 55, 52, 49, 50, 49, 53, 52, 55, 50, 56, 48, 51, 56, 53, 50, 56,
  48, 56, 52, 49, 52, 56, 53, 50, 53, 51, 56, 56, 56, 53, 51, 57, 51, 51, 54, 51, 51, 56, 55, 53, 48, 48, 52, 55, 52, 51, 57, 53, 55, 53, 53, 49, 51,
  49, 51, 55, 51, 53, 51, 55, 57, 57, 48, 55, 53, 49, 49, 54, 51, 55, 50, 54, 53, 49, 54, 55, 54, 49, 50, 50, 50, 48, 50, 57, 55, 50, 57, 57, 55, 53,
  50, 56, 56, 50, 48, 48, 49, 56, 50, 54, 51, 51, 48, 52, 51, 52, 56, 51, 57, 53, 52, 56, 54, 50, 48, 53, 55, 57, 56, 54, 56, 50, 56, 50, 56, 56, 48,
  55, 50, 57, 48, 50, 50, 50, 55, 57, 49, 56, 48, 53, 56, 56, 56, 55, 49, 56, 48, 51, 51, 52, 48, 49, 56, 55, 56, 48, 49, 55, 53, 57, 56, 57, 56, 51,
  52, 55, 56, 56, 55, 56, 51, 56, 52, 56, 51, 55, 50, 54, 49, 54, 55, 53, 49, 51, 54, 49, 51, 52, 49, 50, 53, 50, 52, 50, 55, 51, 49, 54, 55, 50, 51,
  50, 54, 56, 54, 53, 54, 51, 53, 53, 49, 53, 48, 53, 56, 55, 55, 48, 54, 53, 56, 57, 52, 56, 49, 49, 51, 49, 49, 52, 52, 48, 50, 52, 50, 54, 52, 54,
  50, 56, 56, 57, 55, 53, 49, 52, 48, 50, 54, 49, 52, 48, 49, 52, 49, 57, 51, 49, 52, 49, 55, 48, 53, 56, 54, 52, 57, 50, 48, 56, 51, 49, 50, 52, 48,
  50, 51, 52, 52, 56, 51, 52, 55, 56, 50, 52, 53, 48, 52, 48, 48, 48, 56, 56, 51, 56, 55, 51, 55, 49, 54, 55, 56, 54, 56, 52, 51, 51, 53, 51, 50, 54,
  53, 48, 50, 48, 49, 52, 54, 50, 48, 49, 54, 56, 52, 57, 51, 52, 48, 55, 50, 50, 52, 55, 48, 52, 53, 53, 56, 53, 51, 48, 52, 51, 53, 50, 48, 53, 54,
  49, 55, 52, 56, 51, 51, 56, 48, 49, 52, 49, 50, 54, 57, 48, 54, 48, 52, 52, 51, 49, 57, 56, 50, 57, 54, 53, 55, 50, 52, 57, 50, 48, 56, 54, 56, 50,
  56, 56, 57, 48, 57, 51, 49, 48, 48, 50, 53, 49, 54, 55, 56, 48, 48, 56, 51, 55, 52, 48, 55, 49, 56, 56, 49, 56, 49, 55, 52, 49, 52, 51, 51, 51, 55,
  55, 54, 49, 55, 52, 48, 57, 51, 49, 57, 50, 53, 52, 52, 57, 57, 50, 48, 55, 48, 55, 52, 49, 51, 55, 52, 56, 52, 55, 55, 55, 49, 56, 51, 52, 49, 55,
  48, 52, 55, 49, 56, 55, 52, 54, 51, 51, 49, 57, 49, 50, 56, 52, 53, 50, 57, 56, 52, 49, 53, 51, 55, 55, 54, 48, 50, 48, 55, 55, 54, 52, 50, 54, 53,
  54, 53, 49, 53, 48, 53, 53, 54, 49, 51, 48, 52, 52, 53, 49, 54, 54, 57, 49, 53, 54, 52, 48, 52, 49, 48, 52, 50, 51, 52, 54, 56, 53, 51, 53, 54, 48,
  54, 56, 56, 51, 49, 48, 54, 55, 57, 50, 52, 55, 48, 56, 50, 50, 55, 54, 53, 52, 52, 52, 52, 54, 51, 52, 55, 56, 54, 49, 50, 50, 49, 51, 56, 55, 56,
  51, 55, 53, 55, 54, 50, 56, 51, 51, 49, 50, 53, 56, 49, 53, 51, 53, 52, 57, 51, 48, 54, 54]
example : digits800.length = 800 := by decide +kernel
example : parseF64N digits800 = some 0x7ff0000000000000 := by decide +kernel
example : parseF64N (digits800 ++ [101, 45, 56, 48, 48]) = some 0x3fc38874d0517483 := by decide +kernel     -- `…e-800`
example : parseF64N ([48, 46] ++ digits800) = some 0x3fc38874d0517483 := by decide +kernel                 -- `0.…`
example : parseF64N (digits800 ++ [101, 45, 52, 57, 48]) = some 0x7ff0000000000000 := by decide +kernel     -- `…e-490`

end DecFloat
end Sqlgrep
