// C07: LIMIT n outputs exactly the first n rows of the unlimited result; consumption bound; aggregate batch keeps
// the first n groups. Every statement is generated WITHOUT LIMIT, run, and then run again with LIMIT n for
// n in 0..rows+2 over the same files (1..4 files, any split, empty files included).
use crate::c04::join_lines;
use crate::engine_run::*;
use crate::queries::*;
use crate::run::{Params, Run};
use crate::runq::tmp_file;
use crate::util::Rng;

/// lines whose projected columns are mostly NULL (the row is admitted through another column), so that output
/// rows consisting only of NULLs occur; plus ordinary lines and noise
fn gen_lines(rng: &mut Rng, n: usize, null_pct: u64) -> Vec<String> {
    (0..n)
        .map(|_| {
            if rng.chance(1, 5) {
                (*rng.pick(&[";;;;zz;", ";;7;;;", ";;;;;!", "a;;;;;", ";1;;;;", ";;;0.5;;"])).to_owned()
            } else {
                gen_line(rng, null_pct, false)
            }
        })
        .collect()
}

fn split_files(rng: &mut Rng, lines: &[String]) -> Vec<Vec<u8>> {
    let k = 1 + rng.below(4);
    let mut cuts: Vec<usize> = (0..k - 1).map(|_| rng.below(lines.len() + 1)).collect();
    cuts.sort();
    let mut files = Vec::new();
    let mut prev = 0;
    for c in cuts {
        files.push(join_lines(&lines[prev..c]));
        prev = c;
    }
    files.push(join_lines(&lines[prev..]));
    files
}

fn with_limit(text: &str, n: usize) -> String {
    format!("{} LIMIT {}", text, n)
}

pub fn run(p: &Params) -> Run {
    let mut run = Run::new("C07");
    let mut rng = Rng::new(p.seed ^ 0x07);
    let iterations = p.n(700, 16000);
    let jpath = tmp_file(b"");
    let jp = jpath.display().to_string();
    for it in 0..iterations {
        let sch = gen_schema(&mut rng);
        // statement kinds in rotation: plain select, DISTINCT, join (fan-out), aggregate
        let kind = *rng.pick(&["sel", "sel", "dist", "join", "join", "agg", "joinf"]);
        let opts = QueryOpts { allow_limit: false, allow_distinct: kind == "dist" || (kind == "agg" && rng.chance(1, 2)), allow_join: kind == "join" || kind == "joinf", aggregate: Some(kind == "agg") };
        let mut gq = gen_query(&mut rng, &sch, &opts, &jp);
        for _ in 0..12 {
            let ok = match kind {
                "dist" => gq.text.contains("DISTINCT"),
                "join" => gq.joined,
                _ => true,
            };
            if ok { break; }
            gq = gen_query(&mut rng, &sch, &opts, &jp);
        }
        let mut jlines: Vec<String> = (0..rng.below(10)).map(|_| gen_join_line(&mut rng)).collect();
        if kind == "joinf" {
            // fan-out stream: few keys, several partners per key, and a statement in which some partners of a line yield
            // no row (WHERE on a joined-side column) or a row DISTINCT swallows — the n-th row of the unlimited result
            // then comes from a LATE partner, which a LIMIT that counts partners instead of rows cuts off
            jlines = (0..3 + rng.below(8)).map(|_| format!("#{};{};{}", rng.pick(&["a", "a", "b", "c"]), rng.range(-2, 6), rng.pick(&["x", "y", "x", "hello"]))).collect();
            let outer = if rng.chance(1, 4) { "OUTER" } else { "INNER" };
            let on = if rng.chance(1, 2) { "t.k = u.k" } else { "u.k = t.k" };
            let (sel, filter) = match rng.below(6) {
                0 => ("t.k, u.v, y".to_owned(), format!(" WHERE u.v {} {}", rng.pick(&[">", "<", "=", "!=", ">="]), rng.range(-1, 5))),
                1 => ("*".to_owned(), format!(" WHERE y {} '{}'", rng.pick(&["=", "!="]), rng.pick(&["x", "y", "hello"]))),
                2 => (format!("DISTINCT {}", rng.pick(&["t.k", "t.k, y", "y", "u.v", "t.k, t.v"])), String::new()),
                3 => (format!("DISTINCT {}", rng.pick(&["t.k", "y", "u.v"])), format!(" WHERE u.v {} {}", rng.pick(&[">", "<", "!="]), rng.range(-1, 5))),
                4 => ("t.k, u.v".to_owned(), format!(" WHERE u.v > t.v OR y = '{}'", rng.pick(&["x", "hello"]))),
                _ => ("u.v, t.v".to_owned(), " WHERE u.v IS NOT NULL AND u.v != 0".to_owned()),
            };
            gq = GenQuery { text: format!("SELECT {} FROM t{} {} JOIN u::'{}' ON {}", sel, filter, outer, jp, on), is_aggregate: false, joined: true };
        }
        let joined = join_lines(&jlines);
        std::fs::write(&jpath, &joined).unwrap();
        let unlimited = match prepare(&sch.defs, &gq.text) {
            Ok(p) => p,
            Err(_) => { run.count("rejected"); continue; }
        };
        let nl = match rng.below(4) { 0 => rng.below(3), 1 => rng.below(6), _ => rng.below(12) };
        let null_pct = *rng.pick(&[10u64, 30, 60, 90]);
        let mut lines = gen_lines(&mut rng, nl, null_pct);
        // malformed stream: a line that is not valid UTF-8 somewhere (the run without LIMIT fails there)
        let mut files = split_files(&mut rng, &lines);
        let bad_utf8 = it % 23 == 22 && !files.is_empty();
        if bad_utf8 {
            let fi = rng.below(files.len());
            files[fi].extend_from_slice(b"a;1;2;\xff;x;\n");
            lines.clear();
        }
        let u = run_files(&unlimited, &files);
        let rows = u.records().len();
        let desc0 = format!("query={} joined={:?} files={:?}", gq.text, jlines, files.iter().map(|f| String::from_utf8_lossy(f).to_string()).collect::<Vec<_>>());
        let tag_kind = if gq.is_aggregate { "agg" } else if gq.joined { "join" } else if gq.text.contains("DISTINCT") { "dist" } else { "sel" };
        if let Some(case) = batch_case(&unlimited, &joined, &files, None) {
            run.case_with_desc(case, u.wire(), format!("{}:nolimit:{}:f{}:r{}", tag_kind, u.status, files.len(), rows.min(3)), desc0.clone());
        }
        if u.status == "panic" {
            run.oracle_checks += 1;
            run.fail(desc0.clone(), "panic:unlimited", "batch run panicked".to_owned());
            continue;
        }
        // per-line emission of the unlimited statement (engine level), for the consumption bound
        let cum: Option<Vec<usize>> = if !gq.is_aggregate && u.status == "ok" && !bad_utf8 {
            let (wire, steps) = run_incremental(&unlimited, &lines);
            if wire.contains("err:") || wire.contains("panic") || steps.len() != lines.len() { None } else {
                let mut c = Vec::new();
                let mut total = 0usize;
                for s in &steps {
                    total += s.as_ref().map(|(_, rows)| rows.len()).unwrap_or(0);
                    c.push(total);
                }
                Some(c)
            }
        } else { None };
        let fanout = cum.as_ref().map(|c| { let mut prev = 0; let mut f = false; for x in c { if x - prev > 1 { f = true; } prev = *x; } f }).unwrap_or(false);
        // n in 0..rows+2 (all of them when the output is small, else the boundary values and a few inside)
        let mut ns: Vec<usize> = if rows <= 6 { (0..=rows + 2).collect() } else {
            let mut v = vec![0, 1, 2, rows - 1, rows, rows + 1, rows + 2];
            for _ in 0..3 { v.push(rng.below(rows)); }
            v.sort(); v.dedup(); v
        };
        if p.tier_thorough && rows > 6 { ns = (0..=rows + 2).collect(); }
        for &n in &ns {
            let text = with_limit(&gq.text, n);
            let limited = match prepare(&sch.defs, &text) { Ok(p) => p, Err(_) => { run.count("rejected-limit"); continue; } };
            let l = run_files(&limited, &files);
            let desc = format!("query={} joined={:?} files={:?}", text, jlines, files.iter().map(|f| String::from_utf8_lossy(f).to_string()).collect::<Vec<_>>());
            let ncls = if n == 0 { "n0" } else if n < rows { "n<" } else if n == rows { "n=" } else { "n>" };
            if let Some(case) = batch_case(&limited, &joined, &files, None) {
                run.case_with_desc(case, l.wire(), format!("{}:{}:{}:f{}:fan{}", tag_kind, ncls, l.status, files.len().min(3), fanout as u8), desc.clone());
            }
            if l.status == "panic" {
                run.oracle_checks += 1;
                run.fail(desc.clone(), "panic:limited", "batch run with LIMIT panicked".to_owned());
                continue;
            }
            if u.status != "ok" {
                // the sentence does not speak of runs whose unlimited version fails (the LIMIT run may stop earlier)
                run.count("unlimited-fails");
                continue;
            }
            run.oracle_checks += 1;
            let want: Vec<String> = u.records().into_iter().take(n).collect();
            if l.status != "ok" {
                run.fail(desc.clone(), "limit-run-fails", format!("the run without LIMIT succeeds but LIMIT {} ends with {}", n, l.status));
                continue;
            }
            if l.records() != want {
                let class = if gq.is_aggregate { "agg-limit-not-first-n-groups" } else if l.records().len() > want.len() { "limit-overshoot" } else if l.records().len() < want.len() { "limit-undershoot" } else { "limit-other-rows" };
                run.fail(desc.clone(), class, format!("LIMIT {} printed {:?} but the first {} records of the unlimited output are {:?}", n, l.records(), n, want));
                continue;
            }
            if gq.is_aggregate {
                if l.total_lines != u.total_lines {
                    run.fail(desc.clone(), "agg-limit-does-not-read-everything", format!("LIMIT {} read {} lines, the run without LIMIT {}", n, l.total_lines, u.total_lines));
                }
            } else if let Some(cum) = &cum {
                // index (1-based) of the line that produced the n-th row; none if the output has fewer rows
                let bound = if n == 0 { Some(0) } else { cum.iter().position(|&c| c >= n).map(|i| i + 1) };
                if let Some(b) = bound {
                    if l.total_lines as usize > b {
                        run.fail(desc.clone(), if n == 0 { "limit0-reads-input" } else { "limit-reads-beyond-nth-row" }, format!("LIMIT {} read {} lines but the row number {} is produced by line {}", n, l.total_lines, n, b));
                    }
                }
            }
        }
        // line-at-a-time correspondence (the `reached_limit` flag per line) for one n
        if !bad_utf8 && !lines.is_empty() && it % 3 == 0 {
            let n = rng.below(rows + 2);
            if let Ok(limited) = prepare(&sch.defs, &with_limit(&gq.text, n)) {
                let (wire, _) = run_incremental(&limited, &lines);
                if let Some(case) = incr_case(&limited, &joined, &join_lines(&lines)) {
                    let kindw = if wire.contains("err:") { "err" } else if wire.contains("panic") { "panic" } else { "ok" };
                    run.case_with_desc(case, wire.clone(), format!("incr:{}:{}:{}", tag_kind, kindw, if wire.contains('!') { "reached" } else { "notreached" }), format!("incremental query={} input={:?}", with_limit(&gq.text, n), lines));
                }
            }
        }
    }
    let _ = std::fs::remove_file(jpath);
    run.notes.push("statements (select, DISTINCT, INNER/OUTER JOIN with fan-out, aggregates) generated without LIMIT; each run without LIMIT and with LIMIT n for n in 0..rows+2 over 0-11 lines split into 1-4 files (empty files, NULL-only rows, noise lines, every 23rd case an invalid UTF-8 line); oracle on the implementation: records(LIMIT n) = first n records(no LIMIT), total_lines <= line of the n-th row (per-line emission from the engine-level unlimited run), aggregates read everything".to_owned());
    // the end-to-end stream: the same property seen from raw texts and raw file bytes (`e2e.rs`, Lean `Pipeline.runText`)
    crate::e2e::stream(&mut run, &mut Rng::new(p.seed ^ 0xe2e07), p.n(250, 3000), "limit");
    // follow mode: the real FollowFileExecutor stops at the line of the n-th row without coming back for more input
    crate::c11x::follow_limit_stream(&mut run, &mut Rng::new(p.seed ^ 0xf07), p.n(120, 3000));
    run.notes.push("follow-limit stream: FollowFileExecutor (--follow --head) with LIMIT n over a file ending at the line of the n-th row: output = first n rows, the retry hook is never asked".to_owned());
    run
}
