import SqlgrepModel.Lemmas.ParseCreateSwap
import SqlgrepModel.Lemmas.ParseCreateMono
/-
`Parser::parse` on a token vector that is one definition text's tokens followed by another's.

1. `parse_create_table` reads exactly up to the first `;` and does not look at what follows it, except for the location
   of the next token (`parseCreateTable_tail`): from the barrier form of prefix determinism (`createBody_swapB`) — applied
   with the input's own tail it shows that the body stops AT the first boundary token, applied with another tail it gives
   the run on the other input.
2. `parse_multiple_create_table` (`createsLoop`: the statements as a list) over `X ++ tail`, where a run over `X ++ [End]`
   consumed exactly `X`: the same statements, then whatever the loop makes of the tail (`createsLoop_tail`).
3. `Parser::parse` on `A' ++ B` where `A' ++ [End]` is accepted as CREATE TABLE statements and ends in `) ;`, and `B`
   starts with CREATE: the statements of `A'` followed by those of `B`, or `B`'s error (`parseTokens_append`).
-/
namespace Sqlgrep
namespace Parse
namespace Concat

/-! ### lists and the first boundary token -/

theorem swapToks_noB (t2 : PSt) : ∀ (r : List PTok), (∀ t ∈ r, ¬ Boundary t.tok) → swapToks t2 r = r := by
  intro r
  induction r with
  | nil => intro _; rfl
  | cons t ts ih =>
    intro h
    have ht := h t List.mem_cons_self
    simp only [swapToks, ht, if_false, ih (fun u hu => h u (List.mem_cons_of_mem _ hu))]

theorem swapToks_split (t2 : PSt) : ∀ (pre : List PTok) (b : PTok) (R : List PTok), (∀ t ∈ pre, ¬ Boundary t.tok) →
    Boundary b.tok → swapToks t2 (pre ++ b :: R) = pre ++ ⟨b.loc, t2.cur.tok⟩ :: t2.rest := by
  intro pre
  induction pre with
  | nil => intro b R _ hb; simp [swapToks, hb]
  | cons t ts ih =>
    intro b R h hb
    have ht := h t List.mem_cons_self
    simp only [List.cons_append, swapToks, ht, if_false, ih b R (fun u hu => h u (List.mem_cons_of_mem _ hu)) hb]

theorem exists_split : ∀ (r : List PTok), (∀ t ∈ r, ¬ Boundary t.tok) ∨
    ∃ pre b R, r = pre ++ b :: R ∧ (∀ t ∈ pre, ¬ Boundary t.tok) ∧ Boundary b.tok := by
  intro r
  induction r with
  | nil => exact Or.inl (fun t ht => by simp at ht)
  | cons t ts ih =>
    by_cases hb : Boundary t.tok
    · exact Or.inr ⟨[], t, ts, rfl, fun u hu => by simp at hu, hb⟩
    · rcases ih with h | ⟨pre, b, R, rfl, hp, hbb⟩
      · refine Or.inl (fun u hu => ?_)
        rcases List.mem_cons.1 hu with rfl | hu
        · exact hb
        · exact h u hu
      · refine Or.inr ⟨t :: pre, b, R, rfl, fun u hu => ?_, hbb⟩
        rcases List.mem_cons.1 hu with rfl | hu
        · exact hb
        · exact hp u hu

theorem getLast?_append_cons {α : Type} (A : List α) (b : α) (Z : List α) : (A ++ b :: Z).getLast? = (b :: Z).getLast? := by
  rw [List.getLast?_append]
  cases h : (b :: Z).getLast? with
  | none => simp at h
  | some v => rfl

/-! ### one statement -/

variable {T : PrecTables}

/-- **the body of `parse_create_table` stops at the first boundary token and depends on nothing behind it.** A run that
starts off a boundary token and ends on one (`s1`): the input is `pre ++ b :: s1.rest` with `pre` free of boundary tokens
and `b` the token the run stopped on; on `pre ++ b' :: R'` for any boundary token `b'` (at `b`'s location) the run gives
the same value and stops on `b'`. -/
theorem createBody_tail (hT : InertBoundary T) (f : Nat) (c : PTok) (r : List PTok) (hc : ¬ Boundary c.tok)
    (v : List Char × Patterns × List PColDef) (s1 : PSt) (h : createBody T f ⟨c, r⟩ = .ok v s1) (hb1 : Boundary s1.cur.tok) :
    ∃ pre b, r = pre ++ b :: s1.rest ∧ (∀ t ∈ pre, ¬ Boundary t.tok) ∧ b.tok = s1.cur.tok ∧
      ∀ (b' : PTok) (R' : List PTok), Boundary b'.tok → b'.loc = b.loc →
        createBody T f ⟨c, pre ++ b' :: R'⟩ = .ok v ⟨⟨s1.cur.loc, b'.tok⟩, R'⟩ := by
  have key : ∀ t2 : PSt, Boundary t2.cur.tok →
      createBody T f (swapB t2 ⟨c, r⟩) = .ok v ⟨⟨s1.cur.loc, t2.cur.tok⟩, t2.rest⟩ := by
    intro t2 h2
    rw [createBody_swapB hT h2 f ⟨c, r⟩ hc, h]
    simp [PRes.mapSt, swapB, hb1]
  have hsw : ∀ t2 : PSt, swapB t2 ⟨c, r⟩ = ⟨c, swapToks t2 r⟩ := by
    intro t2; simp [swapB, hc]
  rcases exists_split r with hno | ⟨pre, b, R, rfl, hpre, hb⟩
  · -- no boundary token at all: the run could not have stopped on one
    exfalso
    have k1 := key ⟨⟨default, .semi⟩, []⟩ (by simp [Boundary])
    have k2 := key ⟨⟨default, .semi⟩, [⟨default, .semi⟩]⟩ (by simp [Boundary])
    rw [hsw, swapToks_noB _ r hno, h] at k1 k2
    simp only [PRes.ok.injEq, true_and] at k1 k2
    rw [k1] at k2
    simp at k2
  · have k := key ⟨b, R⟩ hb
    rw [hsw, swapToks_split _ pre b R hpre hb, h] at k
    simp only [PRes.ok.injEq, true_and] at k
    have hrest : s1.rest = R := by rw [k]
    have htok : s1.cur.tok = b.tok := by
      have := congrArg (fun s : PSt => s.cur.tok) k
      simpa using this
    refine ⟨pre, b, by rw [hrest], hpre, htok.symm, ?_⟩
    intro b' R' hb' hloc
    have k' := key ⟨b', R'⟩ hb'
    rw [hsw, swapToks_split _ pre b R hpre hb] at k'
    have : (⟨b.loc, b'.tok⟩ : PTok) = b' := by
      obtain ⟨l, t⟩ := b'
      simp only at hloc
      rw [hloc]
    rw [this] at k'
    exact k'

/-- **`parse_create_table` does not depend on what follows the closing `;`** (beyond the location of the next token):
a successful run from `CREATE` on `c :: r` consumed `pre ++ [;]` (`pre` free of boundary tokens) and stopped on the next
token `x`; on `c :: pre ++ ; :: x' :: R'` it gives the same statement and stops on `x'`, for every `x'` at `x`'s location
and every `R'`. -/
theorem parseCreateTable_tail (hT : InertBoundary T) (f : Nat) (c : PTok) (r : List PTok) (hc : c.tok = .kw .create)
    (cr : PCreate) (s2 : PSt) (h : parseCreateTable T f ⟨c, r⟩ = .ok cr s2) :
    ∃ pre b, r = pre ++ b :: s2.cur :: s2.rest ∧ (∀ t ∈ pre, ¬ Boundary t.tok) ∧ b.tok = .semi ∧
      ∀ (x' : PTok) (R' : List PTok), x'.loc = s2.cur.loc →
        parseCreateTable T f ⟨c, pre ++ b :: x' :: R'⟩ = .ok cr ⟨x', R'⟩ := by
  have hcb : ¬ Boundary c.tok := by rw [hc]; decide
  rw [parseCreateTable_eq] at h
  cases hbody : createBody T f ⟨c, r⟩ with
  | err e s' => rw [hbody] at h; cases h
  | fuel => rw [hbody] at h; cases h
  | ok npc s1 =>
    rw [hbody] at h
    simp only [] at h
    -- the `;`
    have hsemi : s1.cur.tok = .semi := by
      by_cases hne : s1.cur.tok = .semi
      · exact hne
      · simp [expectConsume, hne, mkErr] at h
    have hnext : expectConsume .semi .expectedSemiColon s1 = next s1 := by simp [expectConsume, hsemi]
    rw [hnext] at h
    cases hr : s1.rest with
    | nil => simp [next, hr, mkErr] at h
    | cons x R1 =>
      simp only [next, hr, PRes.ok.injEq] at h
      obtain ⟨hcr, hs2⟩ := h
      obtain ⟨pre, b, hrr, hpre, hbt, htail⟩ := createBody_tail hT f c r hcb npc s1 hbody (by rw [hsemi]; simp [Boundary])
      refine ⟨pre, b, ?_, hpre, by rw [hbt, hsemi], ?_⟩
      · rw [hrr, hr, ← hs2]
      · intro x' R' hloc
        rw [parseCreateTable_eq, htail b (x' :: R') (by rw [hbt, hsemi]; simp [Boundary]) rfl]
        simp only [expectConsume, hbt, hsemi, if_true, next]
        rw [← hcr]
        simp only [PRes.ok.injEq, and_true]
        rw [← hs2] at hloc
        simp only at hloc
        simp [hloc]

/-! ### the loop over the statements -/

/-- `parse_multiple_create_table` with the statements as a list: one `CREATE TABLE … ;` per turn while the next token is
`CREATE` -/
def createsLoop (T : PrecTables) : Nat → PSt → PRes (List PCreate)
  | 0, _ => .fuel
  | fuel + 1, s =>
    match parseCreateTable T fuel s with
    | .ok c s1 =>
      if s1.cur.tok ≠ .kw .create then .ok [c] s1
      else
        match createsLoop T fuel s1 with
        | .ok cs s2 => .ok (c :: cs) s2
        | .err e s' => .err e s'
        | .fuel => .fuel
    | .err e s' => .err e s'
    | .fuel => .fuel

/-- what the loop of the parser answers, from the list of the statements -/
def opResult (acc : List PCreate) : PRes (List PCreate) → PRes POp
  | .ok cs s => .ok (opOfCreates (acc ++ cs)) s
  | .err e s => .err e s
  | .fuel => .fuel

theorem multiCreateLoop_eq (T : PrecTables) : ∀ (f : Nat) (acc : List PCreate) (s : PSt),
    multiCreateLoop T f acc s = opResult acc (createsLoop T f s) := by
  intro f
  induction f with
  | zero => intro acc s; rw [multiCreateLoop, createsLoop]; rfl
  | succ f ih =>
    intro acc s
    rw [multiCreateLoop, createsLoop]
    cases parseCreateTable T f s with
    | err e s' => rfl
    | fuel => rfl
    | ok c s1 =>
      simp only []
      by_cases hk : s1.cur.tok = .kw .create
      · simp only [hk, ne_eq, not_true_eq_false, if_false]
        rw [ih]
        cases createsLoop T f s1 <;> simp [opResult]
      · simp only [hk, ne_eq, not_false_eq_true, if_true, opResult]

theorem createsLoop_mono (T : PrecTables) : ∀ (f : Nat) (s : PSt), PLe (createsLoop T f s) (createsLoop T (f + 1) s) := by
  intro f
  induction f with
  | zero => intro s; rw [createsLoop]; exact PLe.fuel _
  | succ f ih =>
    intro s
    rw [createsLoop, createsLoop]
    rcases parseCreateTable_mono T f s with h | h
    · rw [h]; exact PLe.fuel _
    · rw [h]
      cases parseCreateTable T (f + 1) s with
      | err e s' => exact PLe.refl _
      | fuel => exact PLe.refl _
      | ok c s1 =>
        simp only []
        by_cases hk : s1.cur.tok = .kw .create
        · simp only [hk, ne_eq, not_true_eq_false, if_false]
          rcases ih s1 with h1 | h1
          · rw [h1]; exact PLe.fuel _
          · rw [h1]; exact PLe.refl _
        · simp only [hk, ne_eq, not_false_eq_true, if_true]; exact PLe.refl _

theorem createsLoop_mono_le (T : PrecTables) {f f' : Nat} (h : f ≤ f') (s : PSt) :
    PLe (createsLoop T f s) (createsLoop T f' s) :=
  le_of_step (fun n => createsLoop T n s) (fun n => createsLoop_mono T n s) h

/-- the statements `cs` put in front of what the loop answers -/
def prependCreates (cs : List PCreate) : PRes (List PCreate) → PRes (List PCreate)
  | .ok ds s => .ok (cs ++ ds) s
  | .err e s => .err e s
  | .fuel => .fuel

/-- **the loop over `X ++ tail`**: a run of the loop from `CREATE` that ended on the token `sEnd.cur` consumed a non-empty
`X` that ends in `;`; over `X ++ y :: Y`, with any fuel at least as large, it reads the same statements and then goes on
with `y :: Y` if `y` is `CREATE` (with the fuel that is left), and stops on `y` otherwise. -/
theorem createsLoop_tail (hT : InertBoundary T) : ∀ (f : Nat) (c : PTok) (r : List PTok) (cs : List PCreate) (sEnd : PSt),
    c.tok = .kw .create → createsLoop T f ⟨c, r⟩ = .ok cs sEnd →
    ∃ X : List PTok, r = X ++ sEnd.cur :: sEnd.rest ∧ (∃ b, (c :: X).getLast? = some b ∧ b.tok = .semi) ∧ cs ≠ [] ∧
      cs.length ≤ X.length ∧ sEnd.cur.tok ≠ .kw .create ∧
      ∀ (f' : Nat) (y : PTok) (Y : List PTok), f ≤ f' → y.loc = sEnd.cur.loc →
        createsLoop T f' ⟨c, X ++ y :: Y⟩ =
          if y.tok = .kw .create then prependCreates cs (createsLoop T (f' - cs.length) ⟨y, Y⟩) else .ok cs ⟨y, Y⟩ := by
  intro f
  induction f with
  | zero => intro c r cs sEnd _ h; rw [createsLoop] at h; cases h
  | succ f ih =>
    intro c r cs sEnd hc h
    rw [createsLoop] at h
    cases hp : parseCreateTable T f ⟨c, r⟩ with
    | err e s' => rw [hp] at h; cases h
    | fuel => rw [hp] at h; cases h
    | ok cr s2 =>
      rw [hp] at h
      simp only [] at h
      obtain ⟨pre, b, hr, hpre, hbt, htail⟩ := parseCreateTable_tail hT f c r hc cr s2 hp
      -- the same statement from any larger fuel
      have hstep : ∀ (g : Nat) (x' : PTok) (R' : List PTok), f ≤ g → x'.loc = s2.cur.loc →
          parseCreateTable T g ⟨c, pre ++ b :: x' :: R'⟩ = .ok cr ⟨x', R'⟩ := by
        intro g x' R' hg hloc
        have := (parseCreateTable_mono_le T hg ⟨c, pre ++ b :: x' :: R'⟩).eq_of_ne (by rw [htail x' R' hloc]; simp)
        rw [this, htail x' R' hloc]
      have hlast : ∀ Z : List PTok, (c :: (pre ++ b :: Z)).getLast? = (b :: Z).getLast? := by
        intro Z
        rw [show c :: (pre ++ b :: Z) = (c :: pre) ++ (b :: Z) by simp]
        exact getLast?_append_cons _ _ _
      by_cases hk : s2.cur.tok = .kw .create
      · -- more statements follow
        simp only [hk, ne_eq, not_true_eq_false, if_false] at h
        cases hrec : createsLoop T f s2 with
        | err e s' => rw [hrec] at h; cases h
        | fuel => rw [hrec] at h; cases h
        | ok cs' s3 =>
          rw [hrec] at h
          simp only [PRes.ok.injEq] at h
          obtain ⟨hcs, hs3⟩ := h
          subst hcs; subst hs3
          obtain ⟨X', hX', ⟨b', hb'last, hb'tok⟩, hne', hlen', hend', hrun'⟩ := ih s2.cur s2.rest cs' s3 hk (by simpa using hrec)
          refine ⟨pre ++ b :: s2.cur :: X', ?_, ?_, by simp, by simp; omega, hend', ?_⟩
          · rw [hr, hX']; simp
          · refine ⟨b', ?_, hb'tok⟩
            rw [hlast, ← hb'last]
            simp [List.getLast?_cons_cons]
          · intro f' y Y hf hloc
            obtain ⟨g, rfl⟩ : ∃ g, f' = g + 1 := ⟨f' - 1, by omega⟩
            have hg : f ≤ g := by omega
            rw [createsLoop]
            have : pre ++ b :: s2.cur :: X' ++ y :: Y = pre ++ b :: s2.cur :: (X' ++ y :: Y) := by simp
            rw [this, hstep g s2.cur (X' ++ y :: Y) hg rfl]
            simp only [hk, ne_eq, not_true_eq_false, if_false]
            rw [hrun' g y Y hg hloc]
            by_cases hy : y.tok = .kw .create
            · simp only [hy, if_true, List.length_cons]
              have : g + 1 - (cs'.length + 1) = g - cs'.length := by omega
              rw [this]
              cases createsLoop T (g - cs'.length) ⟨y, Y⟩ <;> simp [prependCreates]
            · simp only [hy, if_false]
      · -- the last statement
        simp only [hk, ne_eq, not_false_eq_true, if_true, PRes.ok.injEq] at h
        obtain ⟨hcs, hs2⟩ := h
        subst hcs; subst hs2
        refine ⟨pre ++ [b], ?_, ⟨b, ?_, hbt⟩, by simp, by simp, hk, ?_⟩
        · rw [hr]; simp
        · rw [show c :: (pre ++ [b]) = (c :: pre) ++ [b] by simp, getLast?_append_cons]; rfl
        · intro f' y Y hf hloc
          obtain ⟨g, rfl⟩ : ∃ g, f' = g + 1 := ⟨f' - 1, by omega⟩
          have hg : f ≤ g := by omega
          rw [createsLoop]
          have : pre ++ [b] ++ y :: Y = pre ++ b :: y :: Y := by simp
          rw [this, hstep g y Y hg hloc]
          by_cases hy : y.tok = .kw .create
          · simp only [hy, ne_eq, not_true_eq_false, if_false, if_true, List.length_cons, List.length_nil]
            have : g + 1 - (0 + 1) = g := by omega
            rw [this]
            cases createsLoop T g ⟨y, Y⟩ <;> simp [prependCreates]
          · simp only [hy, ne_eq, not_false_eq_true, if_true, if_false]

/-! ### `Parser::parse` -/

/-- the CREATE TABLE statements of a parsed statement -/
def createsOf : POp → List PCreate
  | .createTable c => [c]
  | .multiple cs => cs
  | .select _ => []

theorem createsOf_opOfCreates (cs : List PCreate) (h : cs ≠ []) : createsOf (opOfCreates cs) = cs := by
  unfold opOfCreates
  cases cs with
  | nil => exact absurd rfl h
  | cons c rest => cases rest <;> rfl

/-- `Parser::parse` from a `CREATE` token, with the statement list made explicit -/
theorem parseOp_create (T : PrecTables) (f : Nat) (s : PSt) (hs : s.cur.tok = .kw .create) :
    parseOp T f s =
      (match createsLoop T f s with
       | .fuel => .fuel
       | .ok cs s1 =>
         (match optSemi s1 with
          | .ok _ s2 => if s2.rest.isEmpty then .ok (opOfCreates cs) s2 else mkErr s2 .tooManyTokens
          | .err e s' => .err e s'
          | .fuel => .fuel)
       | .err e s1 =>
         (match optSemi s1 with
          | .ok _ s2 => .err e s2
          | .err e' s' => .err e' s'
          | .fuel => .fuel)) := by
  unfold parseOp parseStatement
  have hne : (Tok.kw Keyword.create = Tok.kw Keyword.select) = False := by simp
  simp only [hs, ne_eq, not_true_eq_false, and_false, if_false, hne]
  rw [multiCreateLoop_eq]
  cases createsLoop T f s with
  | fuel => rfl
  | ok cs s1 => simp only [opResult, List.nil_append]; cases optSemi s1 <;> rfl
  | err e s1 => simp only [opResult]; cases optSemi s1 <;> rfl

/-- **`Parser::parse` on the tokens of one accepted definition text followed by those of another.**
`A' ++ [e]` (`e` = `End`) starts with `CREATE`, is read as CREATE TABLE statements `opA` and ends in `) ;`; `y :: Y` starts
with `CREATE` (`y` at `e`'s location — all locations equal in the location-free reading). Then the parser reads
`A' ++ y :: Y` as the statements of `A'` followed by the statements of `y :: Y` — or fails with the error `y :: Y` alone
fails with. -/
theorem parseTokens_append (hT : InertBoundary T) (c : PTok) (r' : List PTok) (e y : PTok) (Y : List PTok) (opA : POp)
    (hc : c.tok = .kw .create) (hy : y.tok = .kw .create) (hloc : y.loc = e.loc)
    (hend : ∃ A0 p q, c :: r' = A0 ++ [p, q] ∧ p.tok = .rp ∧ q.tok = .semi)
    (hA : parseTokens T (c :: r' ++ [e]) = .tree opA) :
    parseTokens T (c :: r' ++ y :: Y) =
      match parseTokens T (y :: Y) with
      | .tree opB => .tree (opOfCreates (createsOf opA ++ createsOf opB))
      | o => o := by
  -- the run over `A'`
  unfold parseTokens parseTokensFuel at hA
  simp only [List.cons_append] at hA
  rw [parseOp_create T _ _ hc] at hA
  cases hcl : createsLoop T (fuelBound (c :: (r' ++ [e])).length) ⟨c, r' ++ [e]⟩ with
  | fuel => rw [hcl] at hA; cases hA
  | err e1 s1 => rw [hcl] at hA; simp only [] at hA; revert hA; cases optSemi s1 <;> intro hA <;> cases hA
  | ok csA sEnd =>
    rw [hcl] at hA
    simp only [] at hA
    obtain ⟨X, hX, ⟨bl, hbl, hblt⟩, hne, hlen, hendc, hrun⟩ := createsLoop_tail hT _ c (r' ++ [e]) csA sEnd hc hcl
    -- the loop ended on `End`, having consumed `A'`
    have hfin : X = r' ∧ sEnd = ⟨e, []⟩ ∧ opA = opOfCreates csA := by
      unfold optSemi at hA
      by_cases hsm : sEnd.cur.tok = .semi
      · -- `; ;` at the end: excluded by `) ;`
        exfalso
        simp only [hsm, if_true] at hA
        cases hr : sEnd.rest with
        | nil => simp [next, hr, mkErr] at hA
        | cons z Z =>
          simp only [next, hr] at hA
          cases Z with
          | cons z2 Z2 => simp [mkErr] at hA
          | nil =>
            rw [hr] at hX
            obtain ⟨A0, p, q, hApq, hp, hq⟩ := hend
            -- `c :: r' ++ [e] = c :: X ++ [sEnd.cur, z]`, so `c :: r' = (c :: X) ++ [sEnd.cur]` ends in `bl, sEnd.cur` with `bl = ;`
            have h1 : c :: r' ++ [e] = (c :: X ++ [sEnd.cur]) ++ [z] := by
              simp only [List.cons_append, List.append_assoc, List.cons.injEq, true_and]
              rw [hX]; simp
            have h2 : c :: r' = c :: X ++ [sEnd.cur] := List.append_inj_left' h1 rfl
            rw [h2] at hApq
            have h3 : c :: X ++ [sEnd.cur] = (A0 ++ [p]) ++ [q] := by rw [hApq]; simp
            have h4 : c :: X = A0 ++ [p] := List.append_inj_left' h3 rfl
            rw [h4] at hbl
            simp at hbl
            rw [← hbl] at hblt
            rw [hp] at hblt
            cases hblt
      · simp only [hsm, if_false] at hA
        cases hr : sEnd.rest with
        | cons z Z => simp [hr, mkErr] at hA
        | nil =>
          simp only [hr, List.isEmpty_nil, if_true, ParseOutcome.tree.injEq] at hA
          rw [hr] at hX
          have h1 : r' ++ [e] = X ++ [sEnd.cur] := hX
          have hXr : r' = X := List.append_inj_left' h1 rfl
          have he : [e] = [sEnd.cur] := List.append_inj_right' h1 rfl
          refine ⟨hXr.symm, ?_, hA.symm⟩
          cases sEnd
          simp only [List.cons.injEq, and_true] at he
          simp_all
    obtain ⟨hXr, hsE, hop⟩ := hfin
    subst hXr; subst hsE; subst hop
    -- the run over `A' ++ y :: Y`
    unfold parseTokens parseTokensFuel
    simp only [List.cons_append]
    rw [parseOp_create T _ _ hc, parseOp_create T _ ⟨y, Y⟩ hy]
    have hfuel : fuelBound (c :: (X ++ [e])).length ≤ fuelBound (c :: (X ++ y :: Y)).length := by
      simp only [fuelBound, List.length_cons, List.length_append, List.length_nil]; omega
    rw [hrun _ y Y hfuel hloc]
    simp only [hy, if_true]
    -- the loop over `y :: Y` with the fuel that is left answers as with the fuel of `y :: Y` alone
    have hB : createsLoop T (fuelBound (c :: (X ++ y :: Y)).length - csA.length) ⟨y, Y⟩ =
        createsLoop T (fuelBound (y :: Y).length) ⟨y, Y⟩ := by
      have hle : fuelBound (y :: Y).length ≤ fuelBound (c :: (X ++ y :: Y)).length - csA.length := by
        simp only [fuelBound, List.length_cons, List.length_append]; omega
      have hnf : createsLoop T (fuelBound (y :: Y).length) ⟨y, Y⟩ ≠ .fuel := by
        intro hf
        have hadv := (multiCreateLoop_adv T (fuelBound (y :: Y).length) [] ⟨y, Y⟩ (by simp only [fuelBound, PSt.remaining, List.length_cons]; omega)).1
        rw [multiCreateLoop_eq, hf] at hadv
        exact hadv rfl
      exact (createsLoop_mono_le T hle ⟨y, Y⟩).eq_of_ne hnf
    rw [hB]
    rw [createsOf_opOfCreates csA hne]
    cases hlb : createsLoop T (fuelBound (y :: Y).length) ⟨y, Y⟩ with
    | fuel => rfl
    | err e1 s1 => simp only [prependCreates]; cases optSemi s1 <;> rfl
    | ok csB sB =>
      simp only [prependCreates]
      have hneB : csB ≠ [] := by
        obtain ⟨_, _, _, hn, _⟩ := createsLoop_tail hT _ y Y csB sB hy hlb
        exact hn
      cases optSemi sB with
      | err e' s' => rfl
      | fuel => rfl
      | ok u s2 =>
        simp only []
        by_cases hemp : s2.rest.isEmpty = true
        · simp only [hemp, if_true, createsOf_opOfCreates csB hneB]
        · simp only [hemp, Bool.false_eq_true, if_false]; rfl

end Concat
end Parse
end Sqlgrep
