import SqlgrepModel.Lemmas.ValueOrder
import SqlgrepModel.Lemmas.FloatOrder
import SqlgrepModel.Lemmas.NumericOrder
import SqlgrepModel.Lemmas.UniqueValues
import SqlgrepModel.Lemmas.CompareIntFloat
/-
C16 — value equality, ordering and hashing agree and form a total order.

Model: `Sqlgrep.Value.cmp` (what `#[derive(Ord)]` generates for `Value`, with `Float`'s
hand-written `Ord`), `Value.beq` (`#[derive(PartialEq)]`), `Value.hashRepr` (`#[derive(Hash)]`
stream). Group keys, DISTINCT tuples and PERCENTILE/array_unique use the same functions on
`Vec<Value>` (`cmpList`, `beqList`, `hashList`). All theorems quantify over *all* values:
every type, NULL, nested arrays, every one of the 2^64 REAL bit patterns (NaN payloads, ±0, ±inf).
Only this file states property theorems; helper lemmas live in `Lemmas/`.
-/
namespace Sqlgrep.Props.C16
open Sqlgrep Sqlgrep.Value

/-- exactly one of `a < b`, `a = b`, `a > b` holds, and `=` is the equality used for grouping -/
theorem trichotomy (a b : Value) :
    (cmp a b = .lt ∧ cmp b a = .gt ∧ beq a b = false) ∨
    (cmp a b = .eq ∧ cmp b a = .eq ∧ beq a b = true) ∨
    (cmp a b = .gt ∧ cmp b a = .lt ∧ beq a b = false) := by
  have hs := cmp_swap a b
  have he := cmp_eq_iff_beq a b
  cases h : cmp a b <;> rw [h] at hs he <;> simp [Ordering.swap] at hs he ⊢ <;> simp [hs, he]

/-- the order is transitive (strict part) -/
theorem lt_trans (a b c : Value) (h1 : cmp a b = .lt) (h2 : cmp b c = .lt) : cmp a c = .lt :=
  (cmp_T a b c).1 h1 h2

/-- the order is transitive (non-strict part) -/
theorem le_trans (a b c : Value) (h1 : cmp a b ≠ .gt) (h2 : cmp b c ≠ .gt) : cmp a c ≠ .gt := by
  have t := cmp_T a b c
  unfold T at t
  cases h : cmp a b <;> cases h' : cmp b c <;> simp_all

/-- equal values are indistinguishable by the order -/
theorem eq_congr (a b c : Value) (h : cmp a b = .eq) : cmp a c = cmp b c := (cmp_T a b c).2.1 h

/-- antisymmetry: neither smaller ⇒ equal (by `==`) -/
theorem antisymm (a b : Value) (h1 : cmp a b ≠ .gt) (h2 : cmp b a ≠ .gt) : beq a b = true := by
  rw [cmp_swap a b] at h2
  rw [← cmp_eq_iff_beq]
  cases h : cmp a b <;> simp_all [Ordering.swap]

/-- `==` is reflexive for every value, including NaN -/
theorem beq_refl (a : Value) : beq a a = true := (cmp_eq_iff_beq a a).1 (cmp_refl a)

/-- the order is consistent with equality -/
theorem cmp_eq_iff_eq (a b : Value) : cmp a b = .eq ↔ beq a b = true := cmp_eq_iff_beq a b

/-- equal values hash equally (they feed the same stream to the hasher) -/
theorem eq_hash (a b : Value) (h : beq a b = true) : hashRepr a = hashRepr b :=
  hashRepr_eq_of_beq a b h

/-- tuples (group keys, DISTINCT rows, join keys): same laws for `Vec<Value>` -/
theorem tuple_lt_trans (a b c : List Value) (h1 : cmpList a b = .lt) (h2 : cmpList b c = .lt) :
    cmpList a c = .lt := (cmpList_T a b c).1 h1 h2
theorem tuple_cmp_eq_iff_eq (a b : List Value) : cmpList a b = .eq ↔ beqList a b = true :=
  cmpList_eq_iff_beqList a b
theorem tuple_eq_hash (a b : List Value) (h : beqList a b = true) : hashList a = hashList b :=
  hashList_eq_of_beqList a b h

/-- any two values placed in one group (same B-tree key: `cmp = Equal`), deduplicated or joined
(same hash bucket and `==`) are equal -/
theorem grouped_are_equal (a b : List Value) (h : cmpList a b = .eq) : beqList a b = true :=
  (cmpList_eq_iff_beqList a b).1 h

/-! REAL special values do not break the laws (consequences, stated for visibility) -/
def nan : Value := .real 0x7ff8000000000000
def negZero : Value := .real 0x8000000000000000
def posZero : Value := .real 0
def posInf : Value := .real 0x7ff0000000000000
def negInf : Value := .real 0xfff0000000000000
def one : Value := .real 0x3ff0000000000000

example : cmp nan nan = .eq ∧ beq nan nan = true := by decide
example : cmp one nan = .lt ∧ cmp posInf nan = .lt ∧ cmp negInf one = .lt := by decide
example : beq negZero posZero = true ∧ hashRepr negZero = hashRepr posZero := by decide
-- non-vacuity of the transitivity hypotheses on a non-trivial triple
example : cmp negInf negZero = .lt ∧ cmp negZero one = .lt ∧ cmp negInf one = .lt := by decide
example : cmpList [.int 1, .null] [.int 1, .text [97]] = .lt := by decide

/-! ## NEW (review gap 1): REAL values compare by numeric value — proved, no longer trusted

The exact value of a finite REAL bit pattern is the dyadic number `F64.value n = (±mantissa, exponent)`
(`Lemmas/FloatOrder.lean`; mantissa/exponent from `F64.mantExp`, the decomposition the model also uses
for `cmpIntReal` and `{:.2}`), ordered by `Dy.cmp` / `<` / `Dy.Eqv` (cross-scaling with powers of two;
`Dy.cmp_eq_scale`: independent of the common exponent, so it is the order of the numbers `m·2^e`).
The theorems hold for every `Nat` pattern (only sign, exponent and fraction fields are looked at). -/

/-- `F64.cmp` on finite patterns IS the comparison of the exact values. -/
theorem real_cmp_is_value_cmp (a b : Nat) (ha : F64.isFinite a = true) (hb : F64.isFinite b = true) :
    cmp (.real a) (.real b) = Dy.cmp (F64.value a) (F64.value b) := by
  simp only [cmp]; exact F64.cmp_eq_value_cmp a b ha hb

/-- a REAL is smaller in the order exactly when its value is smaller -/
theorem real_lt_iff_value_lt (a b : Nat) (ha : F64.isFinite a = true) (hb : F64.isFinite b = true) :
    cmp (.real a) (.real b) = .lt ↔ F64.value a < F64.value b := by
  rw [real_cmp_is_value_cmp a b ha hb]; exact Iff.rfl

/-- two REALs are equal in the order exactly when their values are equal -/
theorem real_eq_iff_value_eq (a b : Nat) (ha : F64.isFinite a = true) (hb : F64.isFinite b = true) :
    cmp (.real a) (.real b) = .eq ↔ Dy.Eqv (F64.value a) (F64.value b) := by
  rw [real_cmp_is_value_cmp a b ha hb]; exact Iff.rfl

/-- ... so `-0.0 = +0.0` and no other two distinct (non-NaN) bit patterns are equal -/
theorem real_eq_iff_same_bits_or_zeros (a b : Nat) (ha : a < 2 ^ 64) (hb : b < 2 ^ 64)
    (na : F64.isNaN a = false) (nb : F64.isNaN b = false) :
    cmp (.real a) (.real b) = .eq ↔ (a = b ∨ (F64.mag a = 0 ∧ F64.mag b = 0)) := by
  simp only [cmp]
  rw [F64.cmp_eq_iff_bits a b na nb]
  unfold F64.mag F64.signBit
  have qa : a / 2 ^ 63 = 0 ∨ a / 2 ^ 63 = 1 := by omega
  have qb : b / 2 ^ 63 = 0 ∨ b / 2 ^ 63 = 1 := by omega
  rcases qa with qa | qa <;> rcases qb with qb | qb <;> simp only [qa, qb] <;> simp <;> omega

/-- `-inf` is below every finite REAL and `+inf`; `+inf` is above every finite REAL -/
theorem real_infinities (i j a : Nat) (hi : F64.isInf i = true) (si : F64.signBit i = true)
    (hj : F64.isInf j = true) (sj : F64.signBit j = false) (ha : F64.isFinite a = true) :
    cmp (.real i) (.real a) = .lt ∧ cmp (.real a) (.real j) = .lt ∧ cmp (.real i) (.real j) = .lt := by
  simp only [cmp]
  exact ⟨F64.neg_inf_lt_finite i a hi si ha, F64.finite_lt_pos_inf j a hj sj ha, F64.neg_inf_lt_pos_inf i j hi si hj sj⟩

/-- NaN (what `impl Ord for Float` does after the REAL total-order repair: `partial_cmp`, and for
unordered operands `is_nan().cmp(is_nan())`): any NaN pattern equals any NaN pattern (payload and
sign are ignored) and is greater than every non-NaN REAL, `+inf` included. -/
theorem real_nan (n m a : Nat) (hn : F64.isNaN n = true) (hm : F64.isNaN m = true) (ha : F64.isNaN a = false) :
    cmp (.real n) (.real m) = .eq ∧ cmp (.real a) (.real n) = .lt ∧ cmp (.real n) (.real a) = .gt := by
  simp only [cmp]
  exact ⟨F64.cmp_nan_nan n m hn hm, F64.cmp_lt_nan a n ha hn, F64.cmp_nan_gt n a hn ha⟩

/-- the value order used above is a genuine strict total order on numbers, not on representations -/
theorem value_order_laws (a b c : Dy) :
    ((a < b ∧ ¬ Dy.Eqv a b ∧ ¬ b < a) ∨ (¬ a < b ∧ Dy.Eqv a b ∧ ¬ b < a) ∨ (¬ a < b ∧ ¬ Dy.Eqv a b ∧ b < a)) ∧
    (a < b → b < c → a < c) ∧ (Dy.Eqv a b → Dy.Eqv b c → Dy.Eqv a c) :=
  ⟨Dy.trichotomy a b, Dy.lt_trans, Dy.eqv_trans⟩

/-- ... and it does not depend on how a number is written: `(m·2^j)·2^e` and `m·2^(e+j)` are equal,
and integers embed with their own order -/
theorem value_representation_independent (m e : Int) (j : Nat) (x y : Int) :
    Dy.Eqv ⟨m * 2 ^ j, e⟩ ⟨m, e + j⟩ ∧ (Dy.ofInt x < Dy.ofInt y ↔ x < y) ∧ (Dy.Eqv (Dy.ofInt x) (Dy.ofInt y) ↔ x = y) :=
  ⟨Dy.eqv_shift m e j, Dy.ofInt_lt x y, Dy.ofInt_eqv x y⟩

-- non-vacuity and concrete values: 1.5 = 3·2^51 · 2^-52, -0.0, smallest subnormal 2^-1074, largest subnormal, 2^53
example : F64.value 0x3ff8000000000000 = ⟨0x18000000000000, -52⟩ := by decide
example : Dy.Eqv (F64.value 0x3ff8000000000000) ⟨3, -1⟩ := by decide
example : F64.value 0x8000000000000000 = ⟨0, -1074⟩ ∧ Dy.Eqv (F64.value 0x8000000000000000) (F64.value 0) := by decide
example : F64.value 1 = ⟨1, -1074⟩ ∧ F64.value 0x000fffffffffffff = ⟨2 ^ 52 - 1, -1074⟩ := by decide
example : Dy.Eqv (F64.value 0x4340000000000000) (Dy.ofInt (2 ^ 53)) := by decide
example : F64.isFinite 0x3ff8000000000000 = true ∧ F64.isFinite 0x8000000000000001 = true ∧
    cmp (.real 0x8000000000000001) (.real 0x3ff8000000000000) = .lt ∧
    F64.value 0x8000000000000001 < F64.value 0x3ff8000000000000 := by decide
-- largest subnormal < smallest normal; largest finite < +inf
example : cmp (.real 0x000fffffffffffff) (.real 0x0010000000000000) = .lt ∧
    F64.value 0x000fffffffffffff < F64.value 0x0010000000000000 := by decide
example : F64.isInf 0xfff0000000000000 = true ∧ F64.signBit 0xfff0000000000000 = true ∧
    F64.isInf 0x7ff0000000000000 = true ∧ F64.signBit 0x7ff0000000000000 = false ∧
    F64.isFinite 0x7fefffffffffffff = true := by decide
example : F64.isNaN 0x7ff8000000000000 = true ∧ F64.isNaN 0xfff0000000000001 = true ∧ F64.isNaN 0x7ff0000000000000 = false := by decide
example : F64.isNaN 0x8000000000000000 = false ∧ (0x8000000000000000 : Nat) < 2 ^ 64 ∧ F64.mag 0x8000000000000000 = 0 := by decide

/-! ## NEW (review gap 2): INT × REAL — the WHERE order (`compareValues`, used by `Compare` and `IN`)

`compareValues` is `Value.cmp` except for an INT against a REAL, which go through `F64.cmpIntReal`
(`compare_int_float`). `numValue v` is the exact value of a finite number (`Dy.ofInt i` / `F64.value n`);
`numClass`/`numUnits` (Lemmas/NumericOrder.lean) are the order key of any number: class −1 (−inf), 0 (INT,
finite REAL), 1 (+inf), 2 (NaN), then the exact value in units of 2^-1074. INT is any `Int` (no i64 bound needed). -/

/-- **Numbers compare by numeric value**: any mix of INT and finite REAL is ordered by `compareValues`
exactly as the exact values are; in particular an INT and a REAL of equal value are equal (not ordered by
type), and `2^53 + 1 > 2^53 as REAL` although `(2^53+1) as f64 == 2^53`. -/
theorem numbers_compare_by_value (a b : Value) (ha : isFiniteNumber a = true) (hb : isFiniteNumber b = true) :
    compareValues a b = Dy.cmp (numValue a) (numValue b) ∧
    (compareValues a b = .lt ↔ numValue a < numValue b) ∧
    (compareValues a b = .eq ↔ Dy.Eqv (numValue a) (numValue b)) ∧
    (compareValues a b = .gt ↔ numValue b < numValue a) := by
  have h := compareValues_eq_value_cmp a b ha hb
  refine ⟨h, by rw [h]; exact Iff.rfl, by rw [h]; exact Iff.rfl, ?_⟩
  rw [h, Dy.lt_def, Dy.cmp_swap (numValue a) (numValue b)]
  cases Dy.cmp (numValue a) (numValue b) <;> simp [Ordering.swap]

/-- INT = REAL exactly when the REAL is finite and its value is that integer -/
theorem int_eq_real_iff (i : Int) (b : Nat) :
    compareValues (.int i) (.real b) = .eq ↔ (F64.isFinite b = true ∧ Dy.Eqv (F64.value b) (Dy.ofInt i)) := by
  rcases F64.classify b with ⟨fb, ib, nb⟩ | ⟨fb, ib, nb⟩ | ⟨fb, ib, nb⟩
  · have h := compareValues_eq_value_cmp (.int i) (.real b) rfl fb
    rw [h]; simp only [fb, true_and, numValue]
    exact ⟨Dy.eqv_symm, Dy.eqv_symm⟩
  · simp only [compareValues, F64.cmpIntReal_inf i b ib, fb]
    cases F64.signBit b <;> simp
  · simp [compareValues, F64.cmpIntReal_nan i b nb, fb]

/-- non-finite REAL operands against an INT: `-inf` is below and `+inf` above every INT; NaN is ABOVE
every INT (`compare_int_float` answers `Less` for a NaN right operand, and the REAL-on-the-left case is its
mirror image), consistently with NaN being the greatest REAL in the derived order. -/
theorem int_vs_nonfinite_real (i : Int) (b : Nat) :
    (F64.isNaN b = true → compareValues (.int i) (.real b) = .lt ∧ compareValues (.real b) (.int i) = .gt) ∧
    (F64.isInf b = true → F64.signBit b = false →
      compareValues (.int i) (.real b) = .lt ∧ compareValues (.real b) (.int i) = .gt) ∧
    (F64.isInf b = true → F64.signBit b = true →
      compareValues (.int i) (.real b) = .gt ∧ compareValues (.real b) (.int i) = .lt) := by
  refine ⟨fun h => ?_, fun h s => ?_, fun h s => ?_⟩
  · simp [compareValues, F64.cmpIntReal_nan i b h, Ordering.swap]
  · simp [compareValues, F64.cmpIntReal_inf i b h, s, Ordering.swap]
  · simp [compareValues, F64.cmpIntReal_inf i b h, s, Ordering.swap]

/-- **The algorithm `compare_int_float` runs is the exact comparison** (audit-2 M8). `F64.cmpIntReal`, which
`compareValues` calls and the theorems above are about, is written as the specification (cross-multiplied exact integer
arithmetic). `F64.compareIntFloatAlgo` (`Model/CompareIntFloat.lean`) is the code's algorithm step by step on the bit
pattern: `is_nan`, the threshold tests `y >= 2^63` and `y < -2^63` (IEEE comparisons), `trunc` (mantissa shifted by the
exponent, fraction bits dropped), the saturating cast `as i64`, `x.cmp(..)`, and on equality the sign of the dropped
fraction `y - trunc y`. For EVERY i64 `i` and EVERY bit pattern `n` the two are equal, so every INT×REAL comparison
`compareValues` makes is the one the algorithm computes. The driver executes `compareIntFloatAlgo` for the `cmpir` cases
of C16 (INT edges × neighbouring REALs, answered by the real `compare_values`): the correspondence check ties the
ALGORITHM to the code, this theorem ties it to the specification. -/
theorem int_real_comparison_algorithm_is_exact (i : Int) (n : Nat) (hi : -2 ^ 63 ≤ i ∧ i < 2 ^ 63) :
    F64.compareIntFloatAlgo i n = F64.cmpIntReal i n ∧
    compareValues (.int i) (.real n) = F64.compareIntFloatAlgo i n ∧
    compareValues (.real n) (.int i) = (F64.compareIntFloatAlgo i n).swap := by
  have h := F64.compareIntFloatAlgo_eq_cmpIntReal i n hi
  exact ⟨h, by rw [h]; rfl, by rw [h]; rfl⟩

/-- … hence, on finite REALs, the algorithm's answer is the comparison of the exact values -/
theorem int_real_algorithm_compares_values (i : Int) (n : Nat) (hi : -2 ^ 63 ≤ i ∧ i < 2 ^ 63)
    (hn : F64.isFinite n = true) : F64.compareIntFloatAlgo i n = Dy.cmp (Dy.ofInt i) (F64.value n) := by
  rw [F64.compareIntFloatAlgo_eq_cmpIntReal i n hi, F64.cmpIntReal_eq_value_cmp i n hn]

/-- the side condition is satisfiable and the algorithm separates `2^53 + 1` from `2^53` -/
example : (-2 ^ 63 ≤ (9007199254740993 : Int) ∧ (9007199254740993 : Int) < 2 ^ 63) ∧
    F64.compareIntFloatAlgo 9007199254740993 0x4340000000000000 = .gt := by decide +kernel

/-- **The WHERE order is a total preorder on numbers** — all INTs and all REAL bit patterns (±0, subnormals,
±inf and NaN included, NaN being one class above everything), across all eight INT/REAL mixes of a triple:
reflexive; `b ? a` is the mirror image of `a ? b` (so exactly one of <, =, > holds and it is antisymmetric up
to numeric equality); `<` is transitive; `=` is a congruence (`a = b` ⇒ `a ? c` is `b ? c`, `c ? a` is `c ? b`);
`≤` is transitive. It is the order of the integer key `(numClass, numUnits)`. -/
theorem where_order_is_total_on_numbers (a b c : Value)
    (ha : isNumber a = true) (hb : isNumber b = true) (hc : isNumber c = true) :
    compareValues a a = .eq ∧
    compareValues b a = (compareValues a b).swap ∧
    (compareValues a b = .lt → compareValues b c = .lt → compareValues a c = .lt) ∧
    (compareValues a b = .eq → compareValues a c = compareValues b c) ∧
    (compareValues b c = .eq → compareValues a c = compareValues a b) ∧
    (compareValues a b ≠ .gt → compareValues b c ≠ .gt → compareValues a c ≠ .gt) ∧
    compareValues a b = (compare (numClass a) (numClass b)).then (compare (numUnits a) (numUnits b)) := by
  have t := compareValues_T a b c ha hb hc
  refine ⟨compareValues_refl a, compareValues_swap a b, t.1, t.2.1, t.2.2, ?_, compareValues_eq_key a b ha hb⟩
  unfold T at t
  cases h : compareValues a b <;> cases h' : compareValues b c <;> simp_all

/-- **The WHERE order agrees with the GROUP BY / MIN / MAX / array_unique order on operands of one type**
(and on every other pair that is not an INT/REAL mix): `compareValues` IS `Value.cmp` there, so all laws
above (`trichotomy`, `lt_trans`, …) are laws of WHERE comparisons of same-type operands. (For an INT against
a REAL the two orders differ: finding D45 below.) -/
theorem where_order_agrees_with_group_order_same_type (a b : Value)
    (h : a.valueType = b.valueType ∨ a.rank = b.rank) : compareValues a b = cmp a b := by
  apply compareValues_eq_cmp
  rintro (⟨i, n, rfl, rfl⟩ | ⟨i, n, rfl, rfl⟩) <;> simp [valueType, rank] at h

/-- the only pairs on which the two orders can differ are INT/REAL mixes -/
theorem where_order_differs_only_on_int_real (a b : Value)
    (h : ¬ ((∃ i n, a = .int i ∧ b = .real n) ∨ (∃ i n, a = .real n ∧ b = .int i))) :
    compareValues a b = cmp a b := compareValues_eq_cmp a b h

-- (comparing an INT with a subnormal/zero scales by 2^1074: let `decide` evaluate that power)
set_option exponentiation.threshold 2200
-- non-vacuity: 2^53+1 as INT vs 2^53 as REAL (0x4340000000000000); 2 vs 1.5; 0 vs -0.0; mixes in a chain
example : isFiniteNumber (.int (2 ^ 53 + 1)) = true ∧ isFiniteNumber (.real 0x4340000000000000) = true ∧
    compareValues (.int (2 ^ 53 + 1)) (.real 0x4340000000000000) = .gt ∧
    compareValues (.int (2 ^ 53)) (.real 0x4340000000000000) = .eq ∧
    numValue (.real 0x4340000000000000) < numValue (.int (2 ^ 53 + 1)) := by decide
example : compareValues (.int 2) (.real 0x3ff8000000000000) = .gt ∧ compareValues (.real 0x3ff8000000000000) (.int 2) = .lt ∧
    compareValues (.int 0) (.real 0x8000000000000000) = .eq := by decide
example : F64.isFinite 0x4340000000000000 = true ∧ Dy.Eqv (F64.value 0x4340000000000000) (Dy.ofInt (2 ^ 53)) := by decide
-- a (REAL, INT, REAL) triple for transitivity: 1.5 < 2 < 2.5 (0x4004000000000000)
example : compareValues (.real 0x3ff8000000000000) (.int 2) = .lt ∧ compareValues (.int 2) (.real 0x4004000000000000) = .lt ∧
    compareValues (.real 0x3ff8000000000000) (.real 0x4004000000000000) = .lt := by decide
-- an (INT, REAL, INT) triple with equality: 3 = 3.0 (0x4008000000000000) = 3
example : compareValues (.int 3) (.real 0x4008000000000000) = .eq ∧ compareValues (.real 0x4008000000000000) (.int 3) = .eq := by decide
example : F64.isNaN 0x7ff8000000000000 = true ∧ compareValues (.int (2 ^ 63 - 1)) (.real 0x7ff8000000000000) = .lt ∧
    compareValues (.int (-(2 ^ 63))) (.real 0xfff0000000000000) = .gt := by decide
example : (Value.int 1).valueType = (Value.int 2).valueType ∧ (Value.real 0).rank = (Value.real 1).rank := by decide
example : isNumber (.real 0x7ff8000000000000) = true ∧ isNumber (.int (-5)) = true ∧ isNumber (.real 0xfff0000000000000) = true := by decide
-- a pair that is not an INT/REAL mix although the types differ (the derived order compares the variant rank)
example : compareValues (.text [97]) (.int 1) = cmp (.text [97]) (.int 1) := rfl

/-! ## NEW (review gap 5): array_unique

`uniqueValues xs` (Model/Eval.lean: fold of `insertUnique` into an ascending list = `BTreeSet::from_iter(xs)
.into_iter()`; an insert of a value equal to a member REPLACES the member: std collects, sorts stably and keeps the later
of two equal neighbours) — the function `array_unique` executes. It uses the derived order `Value.cmp`; its equality
`cmp = Equal` is `==` (`cmp_eq_iff_eq`). (The first version of the model kept the FIRST of equal values; the
`array_unique` stream of the C16 check — arrays holding `-0.0` and `0.0`, NaNs of different payloads — showed the
implementation keeps the last, and the model and these theorems were corrected.) -/

/-- **what array_unique returns**: the result is strictly ascending in the order (SORTED order, not occurrence
order; hence no two results are equal), and its members are exactly the LAST occurrences of the equality classes
of the input — `v` is returned iff `v` stands in `xs` at a position after which no value `==`-equal to `v` stands.
So of `[0.0, -0.0]` the `-0.0` is kept, of `[-0.0, 0.0]` the `0.0`. A strictly ascending list is determined by its
members, so this characterises the result completely. -/
theorem array_unique_characterisation (xs : List Value) :
    (uniqueValues xs).Pairwise (fun a b => cmp a b = .lt) ∧
    ∀ v, v ∈ uniqueValues xs ↔ ∃ pre post, xs = pre ++ v :: post ∧ ∀ u ∈ post, beq u v = false := by
  refine ⟨Unique.sorted_uniqueValues xs, fun v => ?_⟩
  rw [Unique.mem_uniqueValues_iff]
  unfold Unique.LastOcc
  constructor
  · rintro ⟨pre, post, h, hp⟩
    refine ⟨pre, post, h, fun u hu => ?_⟩
    have := hp u hu
    rw [Ne, cmp_eq_iff_beq] at this
    simpa using this
  · rintro ⟨pre, post, h, hp⟩
    refine ⟨pre, post, h, fun u hu => ?_⟩
    rw [Ne, cmp_eq_iff_beq, hp u hu]; simp

/-- **any two values deduplicated are equal, and only equal values are**: every input value is represented in the
result by exactly one member, which is `==`-equal to it (the latest equal input value); consequently two input
values share their representative iff they are equal — as for groups (`grouped_are_equal`, here on one-element
keys: `cmpList [u] [x] = Equal`). -/
theorem array_unique_merges_exactly_equal_values (xs : List Value) (x : Value) (hx : x ∈ xs) :
    (∃ u ∈ uniqueValues xs, beq u x = true ∧ cmpList [u] [x] = .eq) ∧
    (∀ u w, u ∈ uniqueValues xs → w ∈ uniqueValues xs → beq u x = true → beq w x = true → u = w) ∧
    (∀ y u, y ∈ xs → u ∈ uniqueValues xs → beq u x = true → (beq u y = true ↔ beq x y = true)) := by
  refine ⟨?_, ?_, ?_⟩
  · obtain ⟨u, hu, hf⟩ := Unique.exists_lastOcc xs x hx
    refine ⟨u, (Unique.mem_uniqueValues_iff xs u).2 hf, (cmp_eq_iff_beq u x).1 hu, ?_⟩
    simp [cmpList, hu, Ordering.then]
  · intro u w hu hw hux hwx
    rw [← cmp_eq_iff_beq] at hux hwx
    have huw : cmp u w = .eq := Unique.cmp_eq_trans hux (Unique.cmp_eq_symm hwx)
    rcases Unique.pairwise_mem (Unique.sorted_uniqueValues xs) hu hw with h | h | h
    · exact h
    · rw [huw] at h; exact absurd h (by decide)
    · rw [Unique.cmp_eq_symm huw] at h; exact absurd h (by decide)
  · intro y u _ _ hux
    rw [← cmp_eq_iff_beq] at hux ⊢
    rw [← cmp_eq_iff_beq, (cmp_T u x y).2.1 hux]

/-- nothing is invented and nothing is lost: the result's members are input values, and it is empty only for an
empty input -/
theorem array_unique_members_are_inputs (xs : List Value) (v : Value) (h : v ∈ uniqueValues xs) : v ∈ xs := by
  obtain ⟨pre, post, hx, _⟩ := (Unique.mem_uniqueValues_iff xs v).1 h
  rw [hx]; simp

-- non-vacuity: sorted output, last of equal values kept (-0.0 / 0.0; NaN payloads), INT/REAL not merged (D45)
example : uniqueValues [.int 3, .int 1, .int 3, .int 2] = [.int 1, .int 2, .int 3] := rfl
example : Value.int 3 ∈ [Value.int 3, .int 1, .int 3, .int 2] := List.mem_cons_self
example : uniqueValues [negZero, posZero, one, posZero] = [posZero, one] ∧ uniqueValues [posZero, negZero] = [negZero] ∧
    uniqueValues [posZero, negZero, posZero, negZero] = [negZero] := ⟨rfl, rfl, rfl⟩
example : uniqueValues [.real 0x7ff8000000000001, nan, one] = [one, nan] := rfl
example : uniqueValues [.text [98], .text [97], .text [98]] = [.text [97], .text [98]] := rfl

/-- KNOWN FINDING D45 (kept as a kernel-checked witness): in the *derived* order, used for GROUP BY
keys, MIN/MAX, PERCENTILE and array_unique, an INT and a REAL are ordered by their type, not by
value: `Int(5) < Float(1.0)`. (WHERE comparisons go through `compare_int_float`, see C03.) -/
theorem d45_int_real_ordered_by_type : cmp (.int 5) one = .lt := by decide

end Sqlgrep.Props.C16
