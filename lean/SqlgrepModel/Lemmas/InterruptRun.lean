import SqlgrepModel.Lemmas.InterruptRel
import SqlgrepModel.Lemmas.InterruptLoad
/- Helper lemmas for C19: the whole run (`runWithIndex` = body of `runBatch`) under an interrupt. -/
namespace Sqlgrep

def joinOutcome (qy : Query) (joined : List FileLine) : Outcome JoinIndex :=
  match qy.join with
  | some j => setupJoin qy.table j (loadJoinFile j joined)
  | none => .ok []

theorem runBatch_eq_runWithIndex (O : Oracles) (qy : Query) (joined : List FileLine) (files : List (List FileLine))
    (sa : Option Nat) : runBatch O qy joined files sa = runWithIndex O qy (joinOutcome qy joined) files sa := rfl

theorem runFiles_stop_init (O : Oracles) (qy : Query) (idx : JoinIndex) (w : Bool) (k : Nat) (files : List (List FileLine)) :
    runFiles O qy idx w (some k) files {} = runFiles O qy idx w none (takeLines k files) {} := by
  have := runFiles_stop_eq_take O qy idx w k files {} (Nat.zero_le _)
  simpa using this

theorem runWithIndex_stop_eq_take (O : Oracles) (qy : Query) (idxO : Outcome JoinIndex) (files : List (List FileLine)) (k : Nat) :
    runWithIndex O qy idxO files (some k) = runWithIndex O qy idxO (takeLines k files) none := by
  cases idxO <;> simp only [runWithIndex, runFiles_stop_init]

theorem runFiles_rel_init (O : Oracles) (qy : Query) (idx : JoinIndex) (w : Bool) (k : Nat) (files : List (List FileLine)) :
    Rel k (runFiles O qy idx w (some k) files {}) (runFiles O qy idx w none files {}) :=
  runFiles_rel O qy idx w k files {} {} (Or.inl rfl) (Nat.zero_le _)

/-- the RunOut of a run whose loop ended in `ls`: line count and — for a non-aggregate statement — everything else
are the loop's -/
theorem runWithIndex_totalLines (O : Oracles) (qy : Query) (idx : JoinIndex) (files : List (List FileLine)) (sa : Option Nat) :
    (runWithIndex O qy (.ok idx) files sa).totalLines =
      (runFiles O qy idx (!(match qy.stmt with
        | .aggregate _ => true
        | _ => false)) sa files {}).out.totalLines := by
  cases hq : qy.stmt with
  | select q =>
    simp only [runWithIndex, hq]
    split <;> rfl
  | aggregate q =>
    simp only [runWithIndex, hq]
    split
    · rfl
    · split <;> simp

theorem runWithIndex_select (O : Oracles) (qy : Query) (q : SelectStmt) (hq : qy.stmt = .select q) (idx : JoinIndex)
    (files : List (List FileLine)) (sa : Option Nat) :
    runWithIndex O qy (.ok idx) files sa = (runFiles O qy idx true sa files {}).out := by
  simp only [runWithIndex, hq]
  split <;> rfl

/-! ### an aggregate statement prints nothing inside the batch loop -/

theorem executeLine_agg_silent (O : Oracles) (qy : Query) (q : AggStmt) (hq : qy.stmt = .aggregate q) (idx : JoinIndex)
    (es es' : EngineState) (l : Line) (lo : LineOut) (h : executeLine O qy idx false es l = .ok (es', lo)) :
    lo.result = none ∧ lo.reachedLimit = false := by
  unfold executeLine at h
  simp only [hq] at h
  split at h
  · simp only [Bool.false_eq_true, if_false, Outcome.ok.injEq, Prod.mk.injEq] at h
    rw [← h.2]; exact ⟨rfl, rfl⟩
  · cases he : lineEnvs qy idx false l with
    | ok envs =>
      simp only [he, bind, Outcome.bind, Bool.false_eq_true, if_false] at h
      cases ha : aggEnvs O q envs es.agg false with
      | ok p =>
        simp only [ha, pure, Outcome.ok.injEq, Prod.mk.injEq] at h
        rw [← h.2]; exact ⟨rfl, rfl⟩
      | error e => simp [ha] at h
      | panic s => simp [ha] at h
      | oracleMissing s => simp [ha] at h
    | error e => simp [he, bind, Outcome.bind] at h
    | panic s => simp [he, bind, Outcome.bind] at h
    | oracleMissing s => simp [he, bind, Outcome.bind] at h

theorem runFile_agg_silent (O : Oracles) (qy : Query) (q : AggStmt) (hq : qy.stmt = .aggregate q) (idx : JoinIndex)
    (sa : Option Nat) (f : List FileLine) (ls : LoopState) :
    (runFile O qy idx false sa f ls).out.printed = ls.out.printed := by
  induction f generalizing ls with
  | nil => simp [runFile]
  | cons fl rest ih =>
    simp only [runFile]
    by_cases hs : (sa == some ls.consumed) = true
    · simp [hs]
    · simp only [hs, Bool.false_eq_true, if_false]
      by_cases hr : fl.readable = true
      · simp only [hr, Bool.not_true, Bool.false_eq_true, if_false]
        cases hx : executeLine O qy idx false ls.es fl.line with
        | ok p =>
          obtain ⟨es1, lo1⟩ := p
          obtain ⟨h1, h2⟩ := executeLine_agg_silent O qy q hq idx ls.es es1 fl.line lo1 hx
          simp only [h1, h2, Bool.false_eq_true, if_false, List.append_nil]
          rw [ih]
        | error e => simp
        | panic s => simp
        | oracleMissing s => simp
      · simp [hr]

theorem runFiles_agg_silent (O : Oracles) (qy : Query) (q : AggStmt) (hq : qy.stmt = .aggregate q) (idx : JoinIndex)
    (sa : Option Nat) (files : List (List FileLine)) (ls : LoopState) :
    (runFiles O qy idx false sa files ls).out.printed = ls.out.printed := by
  induction files generalizing ls with
  | nil => simp [runFiles]
  | cons f rest ih =>
    simp only [runFiles]
    split
    · rfl
    · split
      · exact runFile_agg_silent O qy q hq idx sa f ls
      · rw [ih, runFile_agg_silent O qy q hq idx sa f ls]

end Sqlgrep
