import SqlgrepModel.Model.Exec
/-
Helper lemmas for C05 (`join_names`): which value a name is bound to in the column mapping of a joined row
(`create_joined_column_mapping`; HashMap semantics = the last insertion for a name wins).
-/
namespace Sqlgrep

abbrev Binds := List (String × Value)

/-- the value the `HashMap` built by the insertions `ins` holds for `n` -/
def lastGet (ins : Binds) (n : String) : Option Value := (ins.reverse.find? (fun p => p.1 == n)).map (·.2)

theorem env_get_table (ins : Binds) (n : String) : (envOfInsertions ins).get .table n = lastGet ins n := rfl

def keysOf (ins : Binds) : List String := ins.map (·.1)

theorem hasKey_iff (ins : Binds) (n : String) : hasKey ins n = true ↔ n ∈ keysOf ins := by
  unfold hasKey keysOf
  simp only [List.any_eq_true, List.mem_map, beq_iff_eq]

theorem find_of_nodup (xs : Binds) (n : String) (v : Value) (hnd : (keysOf xs).Nodup) (hm : (n, v) ∈ xs) :
    xs.find? (fun p => p.1 == n) = some (n, v) := by
  induction xs with
  | nil => cases hm
  | cons x rest ih =>
    simp only [keysOf, List.map_cons, List.nodup_cons] at hnd
    rw [List.find?_cons]
    by_cases hx : x.1 = n
    · simp only [hx, beq_self_eq_true]
      rcases List.mem_cons.1 hm with h | h
      · rw [← h]
      · exfalso
        apply hnd.1
        rw [hx]
        exact List.mem_map.2 ⟨(n, v), h, rfl⟩
    · have : (x.1 == n) = false := by simpa using hx
      simp only [this]
      rcases List.mem_cons.1 hm with h | h
      · exfalso; apply hx; rw [← h]
      · exact ih hnd.2 h

/-- with distinct keys, a name is bound to the value it was inserted with -/
theorem lastGet_of_nodup (ins : Binds) (n : String) (v : Value) (hnd : (keysOf ins).Nodup) (hm : (n, v) ∈ ins) :
    lastGet ins n = some v := by
  unfold lastGet
  have hnd' : (keysOf ins.reverse).Nodup := by
    unfold keysOf at *
    rw [List.map_reverse]
    unfold List.Nodup at *
    rw [List.pairwise_reverse]
    exact hnd.imp (fun h => Ne.symm h)
  rw [find_of_nodup ins.reverse n v hnd' (List.mem_reverse.2 hm)]
  rfl

/-! ### the base mapping of the queried table -/

def baseKeys (t : TableInfo) : List String := t.columns.flatMap (fun n => [n, t.name ++ "." ++ n]) ++ ["input"]

theorem keysOf_columnsMapping_sub (t : TableInfo) (row : List Value) (line : Bytes) :
    (keysOf (columnsMapping t row line)).Sublist (baseKeys t) := by
  unfold columnsMapping baseKeys keysOf
  rw [List.map_append]
  apply List.Sublist.append _ (List.Sublist.refl _)
  generalize t.columns = cols
  induction cols generalizing row with
  | nil => simp
  | cons c cs ih =>
    cases row with
    | nil => simp
    | cons v vs =>
      simp only [List.zip_cons_cons, List.flatMap_cons, List.map_append, List.map_cons, List.map_nil]
      exact List.Sublist.append (List.Sublist.refl _) (ih vs)

theorem mem_columnsMapping (t : TableInfo) (row : List Value) (line : Bytes) (n : String) (v : Value)
    (h : (n, v) ∈ t.columns.zip row) :
    (n, v) ∈ columnsMapping t row line ∧ (t.name ++ "." ++ n, v) ∈ columnsMapping t row line := by
  unfold columnsMapping
  constructor
  · apply List.mem_append_left
    exact List.mem_flatMap.2 ⟨(n, v), h, by simp⟩
  · apply List.mem_append_left
    exact List.mem_flatMap.2 ⟨(n, v), h, by simp⟩

theorem input_mem_columnsMapping (t : TableInfo) (row : List Value) (line : Bytes) :
    ("input", Value.text line) ∈ columnsMapping t row line := by
  unfold columnsMapping; simp

/-! ### the fold over the joined row -/

def jstep (u : String) (acc : Binds) (p : String × Value) : Binds :=
  (if hasKey acc p.1 then acc else acc ++ [(p.1, p.2)]) ++ [(u ++ "." ++ p.1, p.2)]

def jfold (u : String) (acc : Binds) (l : Binds) : Binds := l.foldl (jstep u) acc

theorem joinedMapping_fst (t : TableInfo) (row : List Value) (line : Bytes) (j : JoinInfo) (jrow : List Value) :
    (joinedMapping t row line j jrow).1 = jfold j.joined.name (columnsMapping t row line) (j.joined.columns.zip jrow) := rfl

theorem mem_jstep (u : String) (acc : Binds) (p q : String × Value) (h : q ∈ acc) : q ∈ jstep u acc p := by
  unfold jstep
  split <;> simp [h]

theorem mem_jfold (u : String) (acc l : Binds) (q : String × Value) (h : q ∈ acc) : q ∈ jfold u acc l := by
  induction l generalizing acc with
  | nil => exact h
  | cons p rest ih => exact ih _ (mem_jstep u acc p q h)

theorem qual_mem_jfold (u : String) (acc l : Binds) (n : String) (v : Value) (h : (n, v) ∈ l) :
    (u ++ "." ++ n, v) ∈ jfold u acc l := by
  induction l generalizing acc with
  | nil => cases h
  | cons p rest ih =>
    rcases List.mem_cons.1 h with h | h
    · show _ ∈ jfold u (jstep u acc p) rest
      apply mem_jfold
      unfold jstep
      rw [← h]; simp
    · exact ih _ h

theorem keysOf_jstep (u : String) (acc : Binds) (p : String × Value) :
    keysOf (jstep u acc p) = (if hasKey acc p.1 then keysOf acc else keysOf acc ++ [p.1]) ++ [u ++ "." ++ p.1] := by
  unfold jstep keysOf
  split <;> simp

theorem plain_mem_jfold (u : String) (acc l : Binds) (n : String) (v : Value) (h : (n, v) ∈ l)
    (hnd : (keysOf l).Nodup) (hq : ∀ m ∈ keysOf l, n ≠ u ++ "." ++ m) (hk : n ∉ keysOf acc) :
    (n, v) ∈ jfold u acc l := by
  induction l generalizing acc with
  | nil => cases h
  | cons p rest ih =>
    simp only [keysOf, List.map_cons, List.nodup_cons] at hnd
    have hk' : hasKey acc n = false := by
      cases hh : hasKey acc n
      · rfl
      · exact absurd ((hasKey_iff acc n).1 hh) hk
    rcases List.mem_cons.1 h with h | h
    · show _ ∈ jfold u (jstep u acc p) rest
      apply mem_jfold
      unfold jstep
      rw [← h]
      simp [hk']
    · show _ ∈ jfold u (jstep u acc p) rest
      apply ih _ h hnd.2
      · intro m hm; exact hq m (by simp only [keysOf, List.map_cons]; exact List.mem_cons_of_mem _ hm)
      · have hne : p.1 ≠ n := by
          intro he
          apply hnd.1
          rw [he]
          exact List.mem_map.2 ⟨(n, v), h, rfl⟩
        have hq0 : n ≠ u ++ "." ++ p.1 := hq p.1 (by simp [keysOf])
        rw [keysOf_jstep]
        intro hmem
        rcases List.mem_append.1 hmem with h1 | h1
        · split at h1
          · exact hk h1
          · rcases List.mem_append.1 h1 with h2 | h2
            · exact hk h2
            · simp at h2; exact hne h2.symm
        · simp at h1; exact hq0 h1

theorem nodup_jfold (u : String) (acc l : Binds) (hacc : (keysOf acc).Nodup)
    (hqn : ((keysOf l).map (fun m => u ++ "." ++ m)).Nodup)
    (hfresh : ∀ m ∈ keysOf l, u ++ "." ++ m ∉ keysOf acc)
    (hpq : ∀ m ∈ keysOf l, ∀ m' ∈ keysOf l, m' ≠ u ++ "." ++ m) :
    (keysOf (jfold u acc l)).Nodup := by
  induction l generalizing acc with
  | nil => exact hacc
  | cons p rest ih =>
    simp only [keysOf, List.map_cons, List.nodup_cons, List.mem_cons, forall_eq_or_imp] at hqn hfresh hpq
    show (keysOf (jfold u (jstep u acc p) rest)).Nodup
    apply ih
    · rw [keysOf_jstep]
      have h1 : (if hasKey acc p.1 = true then keysOf acc else keysOf acc ++ [p.1]).Nodup := by
        split
        · exact hacc
        · rename_i hh
          rw [List.nodup_append]
          refine ⟨hacc, by simp, ?_⟩
          intro a ha b hb
          simp at hb
          rw [hb]
          intro hab
          apply hh
          rw [hasKey_iff, ← hab]
          exact ha
      rw [List.nodup_append]
      refine ⟨h1, by simp, ?_⟩
      intro a ha b hb
      simp at hb
      rw [hb]
      intro hab
      split at ha
      · exact hfresh.1 (hab ▸ ha)
      · rcases List.mem_append.1 ha with h2 | h2
        · exact hfresh.1 (hab ▸ h2)
        · simp at h2
          exact hpq.1.1 (h2 ▸ hab)
    · exact hqn.2
    · intro m hm
      rw [keysOf_jstep]
      intro hmem
      have hmk : m ∈ keysOf rest := hm
      rcases List.mem_append.1 hmem with h1 | h1
      · split at h1
        · exact hfresh.2 m hm h1
        · rcases List.mem_append.1 h1 with h2 | h2
          · exact hfresh.2 m hm h2
          · simp at h2
            exact hpq.2 m hm |>.1 h2.symm
      · simp at h1
        apply hqn.1
        rw [← h1]
        exact List.mem_map.2 ⟨m, hmk, rfl⟩
    · intro m hm m' hm'
      exact (hpq.2 m hm).2 m' hm'

/-! ### well-formed names and the resulting lookups -/

/-- the names of the two tables do not collide other than through equal plain column names: the queried
table's plain and qualified names and `input` are pairwise distinct, the joined table's qualified names are
distinct from each other, from those and from the joined table's plain names, and a joined plain name that is
not a queried column is not a qualified name or `input` either. Holds whenever column and table names are
identifiers without `.` other than `input` and the two tables have different names. -/
def NamesOk (t : TableInfo) (j : JoinInfo) : Prop :=
  (baseKeys t).Nodup ∧
  (j.joined.columns.map (fun m => j.joined.name ++ "." ++ m)).Nodup ∧
  j.joined.columns.Nodup ∧
  (∀ m ∈ j.joined.columns, j.joined.name ++ "." ++ m ∉ baseKeys t) ∧
  (∀ m ∈ j.joined.columns, ∀ m' ∈ j.joined.columns, m' ≠ j.joined.name ++ "." ++ m) ∧
  (∀ n ∈ j.joined.columns, n ∉ t.columns → n ∉ baseKeys t)

instance (t : TableInfo) (j : JoinInfo) : Decidable (NamesOk t j) := by unfold NamesOk; infer_instance

theorem keysOf_zip_sublist (cols : List String) (vals : List Value) : (keysOf (cols.zip vals)).Sublist cols := by
  induction cols generalizing vals with
  | nil => simp [keysOf]
  | cons c cs ih =>
    cases vals with
    | nil => simp [keysOf]
    | cons v vs =>
      simp only [keysOf, List.zip_cons_cons, List.map_cons]
      exact List.Sublist.cons_cons _ (ih vs)

theorem nodup_joinedMapping (t : TableInfo) (row : List Value) (line : Bytes) (j : JoinInfo) (jrow : List Value)
    (h : NamesOk t j) : (keysOf (joinedMapping t row line j jrow).1).Nodup := by
  obtain ⟨hb, hq, _, hf, hpq, _⟩ := h
  rw [joinedMapping_fst]
  have hsub := keysOf_zip_sublist j.joined.columns jrow
  have hbase := keysOf_columnsMapping_sub t row line
  apply nodup_jfold
  · exact hbase.nodup hb
  · exact (hsub.map _).nodup hq
  · intro m hm hmem
    exact hf m (hsub.subset hm) (hbase.subset hmem)
  · intro m hm m' hm'
    exact hpq m (hsub.subset hm) m' (hsub.subset hm')

theorem lastGet_queried (t : TableInfo) (row : List Value) (line : Bytes) (j : JoinInfo) (jrow : List Value)
    (h : NamesOk t j) (n : String) (v : Value) (hm : (n, v) ∈ t.columns.zip row) :
    lastGet (joinedMapping t row line j jrow).1 n = some v ∧
    lastGet (joinedMapping t row line j jrow).1 (t.name ++ "." ++ n) = some v := by
  have hnd := nodup_joinedMapping t row line j jrow h
  have := mem_columnsMapping t row line n v hm
  constructor
  · apply lastGet_of_nodup _ _ _ hnd
    rw [joinedMapping_fst]; exact mem_jfold _ _ _ _ this.1
  · apply lastGet_of_nodup _ _ _ hnd
    rw [joinedMapping_fst]; exact mem_jfold _ _ _ _ this.2

theorem lastGet_input (t : TableInfo) (row : List Value) (line : Bytes) (j : JoinInfo) (jrow : List Value)
    (h : NamesOk t j) : lastGet (joinedMapping t row line j jrow).1 "input" = some (.text line) := by
  apply lastGet_of_nodup _ _ _ (nodup_joinedMapping t row line j jrow h)
  rw [joinedMapping_fst]; exact mem_jfold _ _ _ _ (input_mem_columnsMapping t row line)

theorem lastGet_joined_qualified (t : TableInfo) (row : List Value) (line : Bytes) (j : JoinInfo) (jrow : List Value)
    (h : NamesOk t j) (n : String) (v : Value) (hm : (n, v) ∈ j.joined.columns.zip jrow) :
    lastGet (joinedMapping t row line j jrow).1 (j.joined.name ++ "." ++ n) = some v := by
  apply lastGet_of_nodup _ _ _ (nodup_joinedMapping t row line j jrow h)
  rw [joinedMapping_fst]; exact qual_mem_jfold _ _ _ _ _ hm

theorem lastGet_joined_plain (t : TableInfo) (row : List Value) (line : Bytes) (j : JoinInfo) (jrow : List Value)
    (h : NamesOk t j) (n : String) (v : Value) (hm : (n, v) ∈ j.joined.columns.zip jrow) (hc : n ∉ t.columns) :
    lastGet (joinedMapping t row line j jrow).1 n = some v := by
  apply lastGet_of_nodup _ _ _ (nodup_joinedMapping t row line j jrow h)
  obtain ⟨_, _, hjn, _, hpq, hpf⟩ := h
  have hsub := keysOf_zip_sublist j.joined.columns jrow
  have hn : n ∈ j.joined.columns := (List.of_mem_zip hm).1
  rw [joinedMapping_fst]
  apply plain_mem_jfold _ _ _ _ _ hm (hsub.nodup hjn)
  · intro m hm'; exact hpq m (hsub.subset hm') n hn
  · intro hk
    exact hpf n hn hc ((keysOf_columnsMapping_sub t row line).subset hk)

/-- the name under which `*` lists a joined column -/
def starKey (t : TableInfo) (j : JoinInfo) (n : String) : String :=
  if t.columns.contains n then j.joined.name ++ "." ++ n else n

theorem joinedMapping_snd (t : TableInfo) (row : List Value) (line : Bytes) (j : JoinInfo) (jrow : List Value) :
    (joinedMapping t row line j jrow).2 = t.columns ++ j.joined.columns.map (starKey t j) := rfl

theorem lastGet_starKey (t : TableInfo) (row : List Value) (line : Bytes) (j : JoinInfo) (jrow : List Value)
    (h : NamesOk t j) (n : String) (v : Value) (hm : (n, v) ∈ j.joined.columns.zip jrow) :
    lastGet (joinedMapping t row line j jrow).1 (starKey t j n) = some v := by
  unfold starKey
  by_cases hc : n ∈ t.columns
  · have : t.columns.contains n = true := List.contains_iff_mem.2 hc
    simp only [this, if_true]
    exact lastGet_joined_qualified t row line j jrow h n v hm
  · have : t.columns.contains n = false := by
      cases hh : t.columns.contains n
      · rfl
      · exact absurd (List.contains_iff_mem.1 hh) hc
    simp only [this, Bool.false_eq_true, if_false]
    exact lastGet_joined_plain t row line j jrow h n v hm hc

theorem map_lookup_zip (g : String → Option Value) (f : String → String) (cols : List String) (vals : List Value)
    (hl : cols.length = vals.length) (h : ∀ p ∈ cols.zip vals, g (f p.1) = some p.2) :
    (cols.map f).map g = vals.map some := by
  induction cols generalizing vals with
  | nil => cases vals with
    | nil => rfl
    | cons _ _ => cases hl
  | cons c cs ih =>
    cases vals with
    | nil => cases hl
    | cons v vs =>
      simp only [List.map_cons, List.cons.injEq]
      refine ⟨h (c, v) (by simp), ih vs (by simpa using hl) ?_⟩
      intro p hp
      exact h p (by simp [hp])

/-- `*` over a joined row: the queried table's values followed by the joined table's -/
theorem star_values (t : TableInfo) (row : List Value) (line : Bytes) (j : JoinInfo) (jrow : List Value)
    (h : NamesOk t j) (hr : t.columns.length = row.length) (hjr : j.joined.columns.length = jrow.length) :
    (joinedMapping t row line j jrow).2.map (lastGet (joinedMapping t row line j jrow).1) = (row ++ jrow).map some := by
  rw [joinedMapping_snd, List.map_append, List.map_append]
  congr 1
  · have := map_lookup_zip (lastGet (joinedMapping t row line j jrow).1) id t.columns row hr
      (fun p hp => (lastGet_queried t row line j jrow h p.1 p.2 hp).1)
    simpa using this
  · exact map_lookup_zip _ _ _ _ hjr (fun p hp => lastGet_starKey t row line j jrow h p.1 p.2 hp)

/-! ### self-join: the joined table is the queried table (same name, same columns) -/

/-- names of one table that do not collide: plain names, qualified names and `input` pairwise distinct -/
def SelfOk (t : TableInfo) : Prop :=
  (baseKeys t).Nodup ∧
  (t.columns.map (fun m => t.name ++ "." ++ m)).Nodup ∧
  t.columns.Nodup ∧
  (∀ n ∈ t.columns ++ ["input"], ∀ m ∈ t.columns, n ≠ t.name ++ "." ++ m)

instance (t : TableInfo) : Decidable (SelfOk t) := by unfold SelfOk; infer_instance

theorem lastGet_append_right (xs ys : Binds) (n : String) (v : Value) (h : lastGet ys n = some v) :
    lastGet (xs ++ ys) n = some v := by
  unfold lastGet at *
  rw [List.reverse_append, List.find?_append]
  cases hf : ys.reverse.find? (fun p => p.1 == n) with
  | none => rw [hf] at h; cases h
  | some p => rw [hf] at h; simpa using h

theorem lastGet_append_left (xs ys : Binds) (n : String) (h : n ∉ keysOf ys) :
    lastGet (xs ++ ys) n = lastGet xs n := by
  unfold lastGet
  rw [List.reverse_append, List.find?_append]
  have : ys.reverse.find? (fun p => p.1 == n) = none := by
    rw [List.find?_eq_none]
    intro p hp hpn
    apply h
    simp only [beq_iff_eq] at hpn
    rw [← hpn]
    exact List.mem_map.2 ⟨p, List.mem_reverse.1 hp, rfl⟩
  rw [this]; rfl

/-- when every plain name is already bound, the fold only appends the qualified bindings -/
theorem jfold_all_bound (u : String) (acc l : Binds) (h : ∀ m ∈ keysOf l, m ∈ keysOf acc) :
    jfold u acc l = acc ++ l.map (fun p => (u ++ "." ++ p.1, p.2)) := by
  induction l generalizing acc with
  | nil => simp [jfold]
  | cons p rest ih =>
    have hp : hasKey acc p.1 = true := (hasKey_iff acc p.1).2 (h p.1 (by simp [keysOf]))
    show jfold u (jstep u acc p) rest = _
    have hs : jstep u acc p = acc ++ [(u ++ "." ++ p.1, p.2)] := by simp [jstep, hp]
    rw [hs, ih]
    · simp
    · intro m hm
      have := h m (by simp only [keysOf, List.map_cons]; exact List.mem_cons_of_mem _ hm)
      simp only [keysOf, List.map_append, List.mem_append]
      exact Or.inl this

theorem keysOf_columnsMapping_full (t : TableInfo) (row : List Value) (line : Bytes)
    (hr : t.columns.length = row.length) : ∀ n ∈ t.columns, n ∈ keysOf (columnsMapping t row line) := by
  intro n hn
  obtain ⟨i, hi, rfl⟩ := List.getElem_of_mem hn
  have hi' : i < row.length := hr ▸ hi
  have hm : (t.columns[i], row[i]) ∈ t.columns.zip row := by
    rw [List.mem_iff_getElem]
    exact ⟨i, by simp only [List.length_zip]; omega, by simp⟩
  exact List.mem_map.2 ⟨_, (mem_columnsMapping t row line _ _ hm).1, rfl⟩

theorem joinedMapping_self (t : TableInfo) (row : List Value) (line : Bytes) (j : JoinInfo) (jrow : List Value)
    (hname : j.joined.name = t.name) (hcols : j.joined.columns = t.columns) (hr : t.columns.length = row.length) :
    (joinedMapping t row line j jrow).1 =
      columnsMapping t row line ++ (t.columns.zip jrow).map (fun p => (t.name ++ "." ++ p.1, p.2)) := by
  rw [joinedMapping_fst, hname, hcols]
  apply jfold_all_bound
  intro m hm
  exact keysOf_columnsMapping_full t row line hr m ((keysOf_zip_sublist t.columns jrow).subset hm)

/-- self-join: the table-qualified name addresses the JOINED row -/
theorem lastGet_self_qualified (t : TableInfo) (row : List Value) (line : Bytes) (j : JoinInfo) (jrow : List Value)
    (h : SelfOk t) (hname : j.joined.name = t.name) (hcols : j.joined.columns = t.columns)
    (hr : t.columns.length = row.length) (n : String) (v : Value) (hm : (n, v) ∈ t.columns.zip jrow) :
    lastGet (joinedMapping t row line j jrow).1 (t.name ++ "." ++ n) = some v := by
  rw [joinedMapping_self t row line j jrow hname hcols hr]
  apply lastGet_append_right
  apply lastGet_of_nodup
  · have hsub := keysOf_zip_sublist t.columns jrow
    have : keysOf ((t.columns.zip jrow).map (fun p => (t.name ++ "." ++ p.1, p.2))) =
        (keysOf (t.columns.zip jrow)).map (fun m => t.name ++ "." ++ m) := by
      simp [keysOf, List.map_map, Function.comp_def]
    rw [this]
    exact (hsub.map _).nodup h.2.1
  · exact List.mem_map.2 ⟨(n, v), hm, rfl⟩

/-- self-join: a plain name (and `input`) addresses the QUERIED row -/
theorem lastGet_self_plain (t : TableInfo) (row : List Value) (line : Bytes) (j : JoinInfo) (jrow : List Value)
    (h : SelfOk t) (hname : j.joined.name = t.name) (hcols : j.joined.columns = t.columns)
    (hr : t.columns.length = row.length) :
    (∀ n w, (n, w) ∈ t.columns.zip row → lastGet (joinedMapping t row line j jrow).1 n = some w) ∧
    lastGet (joinedMapping t row line j jrow).1 "input" = some (.text line) := by
  rw [joinedMapping_self t row line j jrow hname hcols hr]
  have hnd : (keysOf (columnsMapping t row line)).Nodup := (keysOf_columnsMapping_sub t row line).nodup h.1
  have hnot : ∀ n ∈ t.columns ++ ["input"],
      n ∉ keysOf ((t.columns.zip jrow).map (fun p => (t.name ++ "." ++ p.1, p.2))) := by
    intro n hn hmem
    simp only [keysOf, List.map_map, List.mem_map, Function.comp] at hmem
    obtain ⟨p, hp, hpn⟩ := hmem
    exact h.2.2.2 n hn p.1 (List.of_mem_zip (a := p.1) (b := p.2) hp).1 hpn.symm
  constructor
  · intro n w hm
    rw [lastGet_append_left _ _ _ (hnot n (List.mem_append_left _ (List.of_mem_zip hm).1))]
    exact lastGet_of_nodup _ _ _ hnd (mem_columnsMapping t row line n w hm).1
  · rw [lastGet_append_left _ _ _ (hnot "input" (by simp))]
    exact lastGet_of_nodup _ _ _ hnd (input_mem_columnsMapping t row line)

/-- self-join: `*` = the queried row's values under the plain names, then the joined row's under the qualified names -/
theorem star_values_self (t : TableInfo) (row : List Value) (line : Bytes) (j : JoinInfo) (jrow : List Value)
    (h : SelfOk t) (hname : j.joined.name = t.name) (hcols : j.joined.columns = t.columns)
    (hr : t.columns.length = row.length) (hjr : t.columns.length = jrow.length) :
    (joinedMapping t row line j jrow).2 = t.columns ++ t.columns.map (fun n => t.name ++ "." ++ n) ∧
    (joinedMapping t row line j jrow).2.map (lastGet (joinedMapping t row line j jrow).1) = (row ++ jrow).map some := by
  have hk : (joinedMapping t row line j jrow).2 = t.columns ++ t.columns.map (fun n => t.name ++ "." ++ n) := by
    rw [joinedMapping_snd, hcols]
    congr 1
    apply List.map_congr_left
    intro n hn
    simp [starKey, hname, hn]
  refine ⟨hk, ?_⟩
  rw [hk, List.map_append, List.map_append]
  congr 1
  · have := map_lookup_zip (lastGet (joinedMapping t row line j jrow).1) id t.columns row hr
      (fun p hp => (lastGet_self_plain t row line j jrow h hname hcols hr).1 p.1 p.2 hp)
    simpa using this
  · exact map_lookup_zip _ _ _ _ hjr
      (fun p hp => lastGet_self_qualified t row line j jrow h hname hcols hr p.1 p.2 hp)

end Sqlgrep
