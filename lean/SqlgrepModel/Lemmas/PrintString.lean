import SqlgrepModel.Model.Print
/- Readers for the string and integer tokens the printer emits, and their round trips. -/
namespace Sqlgrep.Print

/-! ### JSON string contents -/

def unhex (c : Nat) : Option Nat :=
  if 48 ≤ c ∧ c ≤ 57 then some (c - 48)
  else if 97 ≤ c ∧ c ≤ 102 then some (c - 87)
  else if 65 ≤ c ∧ c ≤ 70 then some (c - 55)
  else none

/-- the two-character escapes of RFC 8259 -/
def simpleEscape (e : Nat) : Option Nat :=
  if e = 34 then some 34 else if e = 92 then some 92 else if e = 47 then some 47
  else if e = 98 then some 8 else if e = 102 then some 12 else if e = 110 then some 10
  else if e = 114 then some 13 else if e = 116 then some 9 else none

def code4 (a b c d : Nat) : Nat := ((a * 16 + b) * 16 + c) * 16 + d

/-- one element of a JSON string body: an unescaped byte (no raw `"` and no control character),
a two-character escape, or `\u00XX` below 0x80 (the only `\u` escapes serde_json writes; larger code
points would need UTF-8 encoding and are rejected by this reader) -/
def readChar : Bytes → Option (Nat × Bytes)
  | [] => none
  | b :: rest =>
    if b = 92 then
      match rest with
      | [] => none
      | e :: rest' =>
        if e = 117 then
          match rest' with
          | h1 :: h2 :: h3 :: h4 :: r =>
            match unhex h1, unhex h2, unhex h3, unhex h4 with
            | some a, some b, some c, some d =>
              if code4 a b c d < 128 then some (code4 a b c d, r) else none
            | _, _, _, _ => none
          | _ => none
        else (simpleEscape e).map (·, rest')
    else if b = 34 ∨ b < 32 then none
    else some (b, rest)

theorem readChar_length {l : Bytes} {c : Nat} {rest : Bytes} (h : readChar l = some (c, rest)) :
    rest.length < l.length := by
  unfold readChar at h
  split at h
  · simp at h
  · rename_i b t
    split at h
    · split at h
      · simp at h
      · rename_i e t'
        split at h
        · split at h
          · split at h
            · split at h
              · simp at h; obtain ⟨_, rfl⟩ := h; simp; omega
              · simp at h
            · simp at h
          · simp at h
        · cases hs : simpleEscape e <;> simp [hs] at h
          obtain ⟨_, rfl⟩ := h; simp; omega
    · split at h
      · simp at h
      · simp at h; obtain ⟨_, rfl⟩ := h; simp

/-- inverse of `jsonEscape`: decode a JSON string body (without the surrounding quotes) -/
def jsonUnescape (l : Bytes) : Option Bytes :=
  match l with
  | [] => some []
  | b :: t =>
    match h : readChar (b :: t) with
    | none => none
    | some (c, rest) => (jsonUnescape rest).map (c :: ·)
termination_by l.length
decreasing_by exact readChar_length h

/-- read a string body up to and including the closing quote; returns the decoded bytes and the rest -/
def readStr (l : Bytes) : Option (Bytes × Bytes) :=
  match l with
  | [] => none
  | b :: t =>
    if b = 34 then some ([], t)
    else
      match h : readChar (b :: t) with
      | none => none
      | some (c, rest) => (readStr rest).map (fun sr => (c :: sr.1, sr.2))
termination_by l.length
decreasing_by exact readChar_length h

theorem unhex_hexDigit (n : Nat) (h : n < 16) : unhex (hexDigit n) = some n := by
  unfold hexDigit unhex
  split
  · rw [if_pos (by omega)]; congr 1; omega
  · rw [if_neg (by omega), if_pos (by omega)]; congr 1; omega

theorem unhex_zero : unhex 48 = some 0 := by decide

theorem escapeByte_ne_nil (b : Nat) : escapeByte b ≠ [] := by
  unfold escapeByte
  repeat (first | split | simp)

theorem readChar_escapeByte (b : Nat) (t : Bytes) : readChar (escapeByte b ++ t) = some (b, t) := by
  unfold escapeByte
  by_cases h1 : b = 34
  · subst h1; simp [readChar, simpleEscape]
  by_cases h2 : b = 92
  · subst h2; simp [readChar, simpleEscape]
  by_cases h3 : b = 8
  · subst h3; simp [readChar, simpleEscape]
  by_cases h4 : b = 9
  · subst h4; simp [readChar, simpleEscape]
  by_cases h5 : b = 10
  · subst h5; simp [readChar, simpleEscape]
  by_cases h6 : b = 12
  · subst h6; simp [readChar, simpleEscape]
  by_cases h7 : b = 13
  · subst h7; simp [readChar, simpleEscape]
  simp only [h1, h2, h3, h4, h5, h6, h7, if_false]
  by_cases h8 : b < 32
  · simp only [h8, if_true, List.cons_append, List.nil_append, readChar, if_true, unhex_zero,
      unhex_hexDigit (b / 16) (by omega), unhex_hexDigit (b % 16) (by omega)]
    have : code4 0 0 (b / 16) (b % 16) = b := by unfold code4; omega
    simp only [this]
    have : b < 128 := by omega
    simp only [this, if_true]
  · have : ¬(b = 34 ∨ b < 32) := by omega
    simp only [h8, if_false]
    simp only [List.cons_append, List.nil_append, readChar, h2, this, if_false]

theorem jsonUnescape_escapeByte (b : Nat) (t : Bytes) :
    jsonUnescape (escapeByte b ++ t) = (jsonUnescape t).map (b :: ·) := by
  have hne := escapeByte_ne_nil b
  have hr := readChar_escapeByte b t
  cases he : escapeByte b with
  | nil => exact absurd he hne
  | cons x xs =>
    rw [he] at hr
    rw [List.cons_append] at hr ⊢
    rw [jsonUnescape]
    split
    · rename_i h; rw [hr] at h; simp at h
    · rename_i c rest h; rw [hr] at h; simp at h; obtain ⟨rfl, rfl⟩ := h; rfl

theorem jsonUnescape_jsonEscape (s : Bytes) : jsonUnescape (jsonEscape s) = some s := by
  induction s with
  | nil => simp [jsonEscape, jsonUnescape]
  | cons b s ih =>
    have : jsonEscape (b :: s) = escapeByte b ++ jsonEscape s := by simp [jsonEscape]
    rw [this, jsonUnescape_escapeByte, ih]; rfl

theorem escapeByte_head_ne_quote (b : Nat) (t : Bytes) :
    ∃ x xs, escapeByte b ++ t = x :: xs ∧ x ≠ 34 := by
  have hr := readChar_escapeByte b t
  cases he : escapeByte b ++ t with
  | nil => rw [he] at hr; simp [readChar] at hr
  | cons x xs =>
    refine ⟨x, xs, rfl, ?_⟩
    intro hx
    rw [he, hx] at hr
    simp [readChar] at hr

theorem readStr_escapeByte (b : Nat) (t : Bytes) :
    readStr (escapeByte b ++ t) = (readStr t).map (fun sr => (b :: sr.1, sr.2)) := by
  obtain ⟨x, xs, he, hx⟩ := escapeByte_head_ne_quote b t
  have hr := readChar_escapeByte b t
  rw [he] at hr ⊢
  rw [readStr]
  simp only [hx, if_false]
  split
  · rename_i h; rw [hr] at h; simp at h
  · rename_i c rest h; rw [hr] at h; simp at h; obtain ⟨rfl, rfl⟩ := h; rfl

/-- reading an escaped string followed by its closing quote gives the string back and stops right after the quote -/
theorem readStr_jsonEscape (s rest : Bytes) : readStr (jsonEscape s ++ 34 :: rest) = some (s, rest) := by
  induction s with
  | nil => simp [jsonEscape, readStr]
  | cons b s ih =>
    have : jsonEscape (b :: s) ++ 34 :: rest = escapeByte b ++ (jsonEscape s ++ 34 :: rest) := by
      simp [jsonEscape]
    rw [this, readStr_escapeByte, ih]; rfl

/-! ### integers -/

def parseNatAux (acc : Nat) : Bytes → Option Nat
  | [] => some acc
  | c :: rest => if 48 ≤ c ∧ c ≤ 57 then parseNatAux (acc * 10 + (c - 48)) rest else none

def parseNat (s : Bytes) : Option Nat :=
  match s with
  | [] => none
  | _ => parseNatAux 0 s

/-- decimal integer with optional leading `-` -/
def parseInt (s : Bytes) : Option Int :=
  match s with
  | [] => none
  | c :: rest =>
    if c = 45 then
      match parseNat rest with
      | some n => some (-(Int.ofNat n))
      | none => none
    else
      match parseNat (c :: rest) with
      | some n => some (Int.ofNat n)
      | none => none

theorem parseNatAux_append (acc : Nat) (a b : Bytes) :
    parseNatAux acc (a ++ b) = (parseNatAux acc a).bind (fun x => parseNatAux x b) := by
  induction a generalizing acc with
  | nil => rfl
  | cons c a ih =>
    simp only [List.cons_append, parseNatAux]
    split
    · exact ih _
    · rfl

theorem parseNatAux_natDigits (n : Nat) : parseNatAux 0 (natDigits n) = some n := by
  induction n using natDigits.induct with
  | case1 n h =>
    rw [natDigits, if_pos h]
    simp only [parseNatAux]
    rw [if_pos (by omega)]; congr 1; omega
  | case2 n h ih =>
    rw [natDigits, if_neg h, parseNatAux_append, ih]
    simp only [Option.bind, parseNatAux]
    rw [if_pos (by omega)]; congr 1; omega

theorem natDigits_ne_nil (n : Nat) : natDigits n ≠ [] := by
  rw [natDigits]; split <;> simp

theorem natDigits_digits (n : Nat) : ∀ c ∈ natDigits n, 48 ≤ c ∧ c ≤ 57 := by
  induction n using natDigits.induct with
  | case1 n h => rw [natDigits, if_pos h]; intro c hc; simp at hc; omega
  | case2 n h ih =>
    rw [natDigits, if_neg h]; intro c hc
    simp only [List.mem_append, List.mem_singleton] at hc
    cases hc with
    | inl hc => exact ih c hc
    | inr hc => omega

theorem parseNat_natDigits (n : Nat) : parseNat (natDigits n) = some n := by
  have := natDigits_ne_nil n
  unfold parseNat
  split
  · contradiction
  · exact parseNatAux_natDigits n

theorem parseInt_renderInt (i : Int) : parseInt (renderInt i) = some i := by
  unfold renderInt
  split
  · rename_i h
    simp only [parseInt, if_true, parseNat_natDigits]
    have := Int.ofNat_natAbs_of_nonpos (Int.le_of_lt h)
    congr 1; simp only [Int.ofNat_eq_natCast]; omega
  · rename_i h
    have hne := natDigits_ne_nil i.natAbs
    have hd := natDigits_digits i.natAbs
    cases hx : natDigits i.natAbs with
    | nil => exact absurd hx hne
    | cons c rest =>
      have hc : c ≠ 45 := by
        have := hd c (by rw [hx]; simp); omega
      simp only [parseInt, hc, if_false]
      rw [← hx, parseNat_natDigits]
      have := Int.natAbs_of_nonneg (Int.not_lt.mp h)
      simp only [Int.ofNat_eq_natCast]
      congr 1

end Sqlgrep.Print
