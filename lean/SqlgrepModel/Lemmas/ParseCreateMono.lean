import SqlgrepModel.Lemmas.ParseSemicolon
/-
Fuel monotonicity of the CREATE TABLE path of the statement parser (`parse_type` … `parse_multiple_create_table`,
`Parser::parse`): more fuel never changes an answer that is not "out of fuel" (`PLe`). The SELECT path is in
`Lemmas/ParseSemicolon.lean`, the expression parser in `Lemmas/ClimbMono.lean`.
-/
namespace Sqlgrep
namespace Parse
namespace Concat

set_option hygiene false in
/-- the induction hypotheses `mono_auto` looks for, from `mono_all` at fuel `n` -/
macro "mono_hyps" : tactic => `(tactic| (
  have ihE := (mono_all T n).1; have ihR := (mono_all T n).2.1; have ihU := (mono_all T n).2.2.1
  have ihP := (mono_all T n).2.2.2.1; have ihC := (mono_all T n).2.2.2.2.1; have ihL := (mono_all T n).2.2.2.2.2))

theorem typeBrackets_mono : ∀ (n k : Nat) (s : PSt), PLe (typeBrackets n k s) (typeBrackets (n + 1) k s) := by
  intro n
  induction n with
  | zero => intro k s; rw [typeBrackets]; exact PLe.fuel _
  | succ n ih =>
    intro k s
    rw [typeBrackets, typeBrackets]
    have ihE := ih 0; have ihR := fun (_ _ : Nat) => ih 0; have ihU := ih 0; have ihP := ih 0
    have ihC := fun (_ _ : Nat) => ih 0; have ihL := fun (_ _ : Nat) => ih 0
    mono_auto
    all_goals exact ih _ _

theorem parseType_mono (n : Nat) (s : PSt) : PLe (parseType n s) (parseType (n + 1) s) := by
  have hTB := typeBrackets_mono n
  have ihE := hTB 0; have ihR := fun (_ _ : Nat) => hTB 0; have ihU := hTB 0; have ihP := hTB 0
  have ihC := fun (_ _ : Nat) => hTB 0; have ihL := fun (_ _ : Nat) => hTB 0
  unfold parseType
  dsimp only
  mono_auto

theorem parseDefineColumn_mono (T : PrecTables) (n : Nat) (p : PColParsing) (s : PSt) :
    PLe (parseDefineColumn T n p s) (parseDefineColumn T (n + 1) p s) := by
  mono_hyps
  have hPT := parseType_mono n
  unfold parseDefineColumn
  dsimp only
  mono_auto

theorem refLoop_mono : ∀ (n : Nat) (acc : List PRegexRef) (s : PSt), PLe (refLoop n acc s) (refLoop (n + 1) acc s) := by
  intro n
  induction n with
  | zero => intro acc s; rw [refLoop]; exact PLe.fuel _
  | succ n ih =>
    intro acc s
    rw [refLoop, refLoop]
    have ihE := ih []; have ihR := fun (_ _ : Nat) => ih []; have ihU := ih []; have ihP := ih []
    have ihC := fun (_ _ : Nat) => ih []; have ihL := fun (_ _ : Nat) => ih []
    mono_auto
    all_goals exact ih _ _

theorem optRefs_mono (n : Nat) (f : PRegexRef) (s : PSt) : PLe (optRefs n f s) (optRefs (n + 1) f s) := by
  unfold optRefs
  split
  · exact refLoop_mono n _ s
  · exact PLe.refl _

theorem jsonLoop_mono : ∀ (n : Nat) (acc : List PJsonStep) (s : PSt), PLe (jsonLoop n acc s) (jsonLoop (n + 1) acc s) := by
  intro n
  induction n with
  | zero => intro acc s; rw [jsonLoop]; exact PLe.fuel _
  | succ n ih =>
    intro acc s
    rw [jsonLoop, jsonLoop]
    have ihE := ih []; have ihR := fun (_ _ : Nat) => ih []; have ihU := ih []; have ihP := ih []
    have ihC := fun (_ _ : Nat) => ih []; have ihL := fun (_ _ : Nat) => ih []
    mono_auto
    all_goals exact ih _ _

theorem colItem_mono (T : PrecTables) (n : Nat) (ps : Patterns) (cs : List PColDef) (s : PSt) :
    PLe (colItem T n ps cs s) (colItem T (n + 1) ps cs s) := by
  mono_hyps
  have hOR := optRefs_mono n
  have hDC := parseDefineColumn_mono T n
  have hJL := jsonLoop_mono n
  unfold colItem
  mono_auto

theorem colLoop_mono (T : PrecTables) : ∀ (n : Nat) (ps : Patterns) (cs : List PColDef) (s : PSt),
    PLe (colLoop T n ps cs s) (colLoop T (n + 1) ps cs s) := by
  intro n
  induction n with
  | zero => intro ps cs s; rw [colLoop]; exact PLe.fuel _
  | succ n ih =>
    intro ps cs s
    rw [colLoop, colLoop]
    have hCI := colItem_mono T n
    have ihE := ih [] []; have ihR := fun (_ _ : Nat) => ih [] []; have ihU := ih [] []; have ihP := ih [] []
    have ihC := fun (_ _ : Nat) => ih [] []; have ihL := fun (_ _ : Nat) => ih [] []
    mono_auto
    all_goals exact ih _ _ _

theorem parseCreateTable_mono (T : PrecTables) (n : Nat) (s : PSt) :
    PLe (parseCreateTable T n s) (parseCreateTable T (n + 1) s) := by
  have hCL := colLoop_mono T n
  have ihE := hCL [] []; have ihR := fun (_ _ : Nat) => hCL [] []; have ihU := hCL [] []; have ihP := hCL [] []
  have ihC := fun (_ _ : Nat) => hCL [] []; have ihL := fun (_ _ : Nat) => hCL [] []
  unfold parseCreateTable
  dsimp only
  mono_auto

theorem multiCreateLoop_mono (T : PrecTables) : ∀ (n : Nat) (acc : List PCreate) (s : PSt),
    PLe (multiCreateLoop T n acc s) (multiCreateLoop T (n + 1) acc s) := by
  intro n
  induction n with
  | zero => intro acc s; rw [multiCreateLoop]; exact PLe.fuel _
  | succ n ih =>
    intro acc s
    rw [multiCreateLoop, multiCreateLoop]
    have hCT := parseCreateTable_mono T n
    have ihE := ih []; have ihR := fun (_ _ : Nat) => ih []; have ihU := ih []; have ihP := ih []
    have ihC := fun (_ _ : Nat) => ih []; have ihL := fun (_ _ : Nat) => ih []
    mono_auto
    all_goals exact ih _ _

theorem le_of_step {α : Type} (F : Nat → PRes α) (h : ∀ n, PLe (F n) (F (n + 1))) {f f' : Nat} (hle : f ≤ f') :
    PLe (F f) (F f') := by
  induction hle with
  | refl => exact PLe.refl _
  | step _ ih => exact ih.trans (h _)

theorem parseCreateTable_mono_le (T : PrecTables) {f f' : Nat} (h : f ≤ f') (s : PSt) :
    PLe (parseCreateTable T f s) (parseCreateTable T f' s) :=
  le_of_step (fun n => parseCreateTable T n s) (fun n => parseCreateTable_mono T n s) h

theorem multiCreateLoop_mono_le (T : PrecTables) {f f' : Nat} (h : f ≤ f') (acc : List PCreate) (s : PSt) :
    PLe (multiCreateLoop T f acc s) (multiCreateLoop T f' acc s) :=
  le_of_step (fun n => multiCreateLoop T n acc s) (fun n => multiCreateLoop_mono T n acc s) h

/-- `Parser::parse` on a token vector that starts with CREATE: more fuel, same answer -/
theorem parseOp_create_mono_le (T : PrecTables) {f f' : Nat} (h : f ≤ f') (s : PSt) (hs : s.cur.tok = .kw .create) :
    PLe (parseOp T f s) (parseOp T f' s) := by
  unfold parseOp parseStatement
  simp only [hs, ne_eq, not_true_eq_false, and_false, if_false]
  rcases multiCreateLoop_mono_le T h [] s with hm | hm
  · rw [hm]; exact PLe.fuel _
  · rw [hm]; exact PLe.refl _

end Concat
end Parse
end Sqlgrep
