import SqlgrepModel.Model.Eval
/-
C03 (expression level) — the documented meaning of expressions, for ALL operands, environments and
oracle tables. The model is `Sqlgrep.eval` (Model/Eval.lean), mirroring
`ExpressionExecutionEngine::evaluate` of /repo HEAD. The SELECT-level theorems (one output row per
qualifying row, evaluated on that row alone; `*`, `input`, column names) live in Props/C03Select.lean (audited together with this file by ./check C03).
-/
namespace Sqlgrep.Props.C03
open Sqlgrep

variable (O : Oracles) (env : Env)

/-- comparisons are false when an operand is NULL -/
theorem cmp_null_false (op : CmpOp) (l r : Expr) (lv rv : Value)
    (hl : eval O env l = .ok lv) (hr : eval O env r = .ok rv) (hn : lv.isNull = true ∨ rv.isNull = true) :
    eval O env (.compare op l r) = .ok (.bool false) := by
  simp only [eval, hl, hr, bind, Outcome.bind]
  cases lv <;> cases rv <;> simp_all [Value.isNull, pure]

/-- `x IS NULL` / `x IS NOT NULL` test NULL -/
theorem is_null_test (isNot : Bool) (l : Expr) (lv : Value) (hl : eval O env l = .ok lv) :
    eval O env (.nullCmp isNot l (.value .null)) = .ok (.bool (if isNot then !lv.isNull else lv.isNull)) := by
  simp only [eval, hl, bind, Outcome.bind, pure]
  cases lv <;> cases isNot <;> simp [Value.beq, Value.isNull]

/-- AND / OR are two-valued: whenever they have a value it is TRUE or FALSE, never NULL -/
theorem bool_ops_two_valued (isAnd : Bool) (l r : Expr) (v : Value)
    (h : eval O env (.boolOp isAnd l r) = .ok v) : ∃ b, v = .bool b := by
  simp only [eval, bind, Outcome.bind, pure] at h
  cases hl : eval O env l <;> rw [hl] at h <;> simp at h
  cases isAnd <;> simp at h
  all_goals
    split at h
    · first | exact ⟨_, (Outcome.ok.inj h).symm⟩ | (cases hr : eval O env r <;> rw [hr] at h <;> simp at h; exact ⟨_, h.symm⟩)
    · first | exact ⟨_, (Outcome.ok.inj h).symm⟩ | (cases hr : eval O env r <;> rw [hr] at h <;> simp at h; exact ⟨_, h.symm⟩)

/-- AND is the conjunction of the operands' truth values (non-boolean operands count as false) -/
theorem and_meaning (l r : Expr) (lv rv : Value) (hl : eval O env l = .ok lv) (hr : eval O env r = .ok rv) :
    eval O env (.boolOp true l r) = .ok (.bool (lv.truthy && rv.truthy)) := by
  simp only [eval, hl, hr, bind, Outcome.bind, pure]
  cases lv.truthy <;> simp

theorem or_meaning (l r : Expr) (lv rv : Value) (hl : eval O env l = .ok lv) (hr : eval O env r = .ok rv) :
    eval O env (.boolOp false l r) = .ok (.bool (lv.truthy || rv.truthy)) := by
  simp only [eval, hl, hr, bind, Outcome.bind, pure]
  cases lv.truthy <;> simp

/-- arithmetic with NULL gives NULL -/
theorem arith_null_left (op : ArithOp) (r : Value) : arith op .null r = .ok .null := by
  cases r <;> simp [arith]
theorem arith_null_right (op : ArithOp) (l : Value) : arith op l .null = .ok .null := by
  cases l <;> simp [arith]

/-- INT arithmetic is exact or an error: never a wrapped value, never a panic -/
theorem int_add_exact (x y : Int) :
    arith .add (.int x) (.int y) = if inI64 (x + y) then .ok (.int (x + y)) else .error .undefinedOperation := by
  by_cases h : inI64 (x + y) = true <;> simp [arith, checked, h]
theorem int_sub_exact (x y : Int) :
    arith .sub (.int x) (.int y) = if inI64 (x - y) then .ok (.int (x - y)) else .error .undefinedOperation := by
  by_cases h : inI64 (x - y) = true <;> simp [arith, checked, h]
theorem int_mul_exact (x y : Int) :
    arith .mul (.int x) (.int y) = if inI64 (x * y) then .ok (.int (x * y)) else .error .undefinedOperation := by
  by_cases h : inI64 (x * y) = true <;> simp [arith, checked, h]
theorem int_div_exact (x y : Int) :
    arith .div (.int x) (.int y) =
      if y = 0 then .error .undefinedOperation
      else if inI64 (Int.tdiv x y) then .ok (.int (Int.tdiv x y)) else .error .undefinedOperation := by
  simp only [arith, checked]
  by_cases hy : y = 0
  · simp [hy]
  · by_cases h : inI64 (Int.tdiv x y) = true <;> simp [hy, h]

/-- the membership test over already evaluated operands -/
def inSpec (v : Value) (xs : List Value) : Bool :=
  xs.any (fun x => !v.isNull && !x.isNull && compareValues v x == .eq)
def notInSpec (v : Value) (xs : List Value) : Bool :=
  xs.all (fun x => !v.isNull && !x.isNull && compareValues v x != .eq)

theorem evalIn_in (v : Value) : ∀ (xs : List Value) (anyNull : Bool), (v.isNull = true → anyNull = true) →
    evalIn O env false v anyNull (xs.map .value) = .ok (.bool (inSpec v xs)) := by
  intro xs
  induction xs with
  | nil => intro a _; simp [evalIn, inSpec]
  | cons x xs ih =>
    intro a ha
    simp only [List.map, evalIn, eval, bind, Outcome.bind, pure, inSpec, List.any_cons]
    by_cases hx : x.isNull = true
    · simp only [hx, if_true]; rw [ih true (fun _ => rfl)]; simp [inSpec]
    · simp only [hx]
      by_cases hc : compareValues v x = .eq
      · by_cases hv : v.isNull = true
        · -- a NULL operand never compares equal to a non-NULL member
          cases v <;> simp [Value.isNull] at hv
          cases x <;> simp_all [compareValues, Value.cmp, Value.rank, Value.isNull]
        · simp [hc, hv]
      · have hc' : (compareValues v x == Ordering.eq) = false := by
          cases h : compareValues v x <;> simp_all
        simp only [hc', Bool.false_eq_true, if_false]; rw [ih a ha]; simp [inSpec]

/-- `x IN (v1, …, vn)` means `x = v1 OR … OR x = vn` (each `=` false on NULL) -/
theorem in_is_or_of_eq (e : Expr) (v : Value) (xs : List Value) (he : eval O env e = .ok v) :
    eval O env (.inList false e (xs.map .value)) = .ok (.bool (inSpec v xs)) := by
  simp only [eval, he, bind, Outcome.bind]
  exact evalIn_in O env v xs v.isNull (fun h => h)

theorem evalIn_notIn (v : Value) : ∀ (xs : List Value) (anyNull : Bool), (v.isNull = true → anyNull = true) →
    evalIn O env true v anyNull (xs.map .value) = .ok (.bool (!anyNull && notInSpec v xs)) := by
  intro xs
  induction xs with
  | nil => intro a _; simp [evalIn, notInSpec]
  | cons x xs ih =>
    intro a ha
    simp only [List.map, evalIn, eval, bind, Outcome.bind, pure, notInSpec, List.all_cons]
    by_cases hx : x.isNull = true
    · simp only [hx, if_true]; rw [ih true (fun _ => rfl)]; simp
    · simp only [hx]
      by_cases hc : compareValues v x = .eq
      · simp [hc]
      · have hc' : (compareValues v x == Ordering.eq) = false := by
          cases h : compareValues v x <;> simp_all
        simp only [hc', Bool.false_eq_true, if_false]; rw [ih a ha]
        by_cases hv : v.isNull = true
        · simp [ha hv]
        · have hne : (compareValues v x != Ordering.eq) = true := by simp [bne, hc']
          simp [hv, notInSpec, hne]

/-- `x NOT IN (v1, …, vn)` (n ≥ 1) means `x != v1 AND … AND x != vn` (each `!=` false on NULL) -/
theorem notin_is_and_of_ne (e : Expr) (v : Value) (x : Value) (xs : List Value) (he : eval O env e = .ok v) :
    eval O env (.inList true e ((x :: xs).map .value)) = .ok (.bool (notInSpec v (x :: xs))) := by
  simp only [eval, he, bind, Outcome.bind]
  rw [evalIn_notIn O env v (x :: xs) v.isNull (fun h => h)]
  by_cases hv : v.isNull = true
  · simp [hv, notInSpec]
  · simp [hv]

/-- CASE takes the first true branch -/
theorem case_first_true (c r els : Expr) (rest : List (Expr × Expr)) (cv : Value)
    (hc : eval O env c = .ok cv) (ht : cv.truthy = true) :
    eval O env (.case ((c, r) :: rest) els) = eval O env r := by
  simp only [eval, evalCase, hc, ht, bind, Outcome.bind, pure, if_true]
  cases eval O env r <;> rfl

theorem case_skip_false (c r els : Expr) (rest : List (Expr × Expr)) (cv : Value)
    (hc : eval O env c = .ok cv) (ht : cv.truthy = false) :
    eval O env (.case ((c, r) :: rest) els) = eval O env (.case rest els) := by
  simp only [eval, evalCase, hc, ht, bind, Outcome.bind, pure]
  simp

/-- array subscripts are 1-based; out-of-range subscripts give NULL -/
theorem subscript_one_based (a i : Expr) (t : VType) (xs : List Value) (n : Int)
    (ha : eval O env a = .ok (.array t xs)) (hi : eval O env i = .ok (.int n)) :
    eval O env (.index a i) = .ok (if n ≥ 1 then (xs[(n - 1).toNat]?).getD .null else .null) := by
  simp only [eval, ha, hi, bind, Outcome.bind, pure]

/-- a type mismatch in a comparison is an error, not a value -/
theorem cmp_type_mismatch_is_error (op : CmpOp) (l r : Expr) (x : Int) (s : Bytes)
    (hl : eval O env l = .ok (.int x)) (hr : eval O env r = .ok (.text s)) :
    eval O env (.compare op l r) = .error .typeError := by
  simp [eval, hl, hr, bind, Outcome.bind, pure, Value.isNull, typesComparable, Value.valueType]

/-- non-vacuity: the hypotheses above are met by concrete expressions -/
example : eval {} {} (.inList false (.value (.int 5)) ([.int 5, .null].map .value)) = .ok (.bool true) := by rfl
example : eval {} {} (.inList true (.value .null) ([.int 5, .int 7].map .value)) = .ok (.bool false) := by rfl
example : eval {} {} (.compare .gt (.value (.int 2)) (.value (.real 0x3ff8000000000000))) = .ok (.bool true) := by rfl
example : eval {} {} (.arith .add (.value (.int 9223372036854775807)) (.value (.int 1))) = .error .undefinedOperation := by rfl
example : eval {} {} (.arith .div (.value (.int 1)) (.value (.int 0))) = .error .undefinedOperation := by rfl

end Sqlgrep.Props.C03
