import SqlgrepModel.Lemmas.InterruptRel
/- Helper lemmas for C19 (follow mode): the loop of `FollowFileExecutor::execute` under an interrupt. -/
namespace Sqlgrep

theorem runFollow_stop_eq_take (O : Oracles) (qy : Query) (k : Nat) (lines : List Line) (ls : LoopState)
    (h : ls.consumed ≤ k) :
    runFollow O qy (some k) lines ls = runFollow O qy none (lines.take (k - ls.consumed)) ls := by
  induction lines generalizing ls with
  | nil => simp [runFollow]
  | cons l rest ih =>
    by_cases hk : k = ls.consumed
    · simp [runFollow, hk]
    · have hpos : k - ls.consumed = (k - (ls.consumed + 1)) + 1 := by omega
      rw [hpos, List.take_succ_cons]
      simp only [runFollow]
      have h1 : (some k == some ls.consumed) = false := by simpa using hk
      have h2 : ((none : Option Nat) == some ls.consumed) = false := by simp
      simp only [h1, h2, Bool.false_eq_true, if_false]
      cases hx : executeLine O qy [] true ls.es l with
      | ok p =>
        obtain ⟨es1, lo1⟩ := p
        simp only
        cases hres : lo1.result with
        | none =>
          simp only
          exact ih _ (by simp only; omega)
        | some r =>
          simp only
          by_cases hl : lo1.reachedLimit = true
          · simp only [hl, if_true]
          · simp only [hl, Bool.false_eq_true, if_false]
            exact ih _ (by simp only; omega)
      | error e => rfl
      | panic s => rfl
      | oracleMissing s => rfl

theorem runFollow_printed_mono (O : Oracles) (qy : Query) (sa : Option Nat) (lines : List Line) (ls : LoopState) :
    ls.out.printed <+: (runFollow O qy sa lines ls).out.printed := by
  induction lines generalizing ls with
  | nil => simp [runFollow]
  | cons l rest ih =>
    simp only [runFollow]
    by_cases hs : (sa == some ls.consumed) = true
    · simp [hs]
    · simp only [hs, Bool.false_eq_true, if_false]
      cases hx : executeLine O qy [] true ls.es l with
      | ok p =>
        obtain ⟨es1, lo1⟩ := p
        simp only
        cases hres : lo1.result with
        | none => simp only; exact (ih { ls with consumed := ls.consumed + 1, out := { ls.out with totalLines := ls.out.totalLines + 1 }, es := es1 })
        | some r =>
          simp only
          by_cases hl : lo1.reachedLimit = true
          · simp [hl]
          · simp only [hl, Bool.false_eq_true, if_false]
            refine List.IsPrefix.trans ?_ (ih _)
            exact List.prefix_append _ _
      | error e => simp
      | panic s => simp
      | oracleMissing s => simp

/-- interrupted against uninterrupted follow loop over the same delivered lines -/
theorem runFollow_rel (O : Oracles) (qy : Query) (k : Nat) (lines : List Line) (ls : LoopState)
    (hc : ls.consumed ≤ k) (hst : ls.stop = false) :
    Rel k (runFollow O qy (some k) lines ls) (runFollow O qy none lines ls) := by
  induction lines generalizing ls with
  | nil => left; simp [runFollow]
  | cons l rest ih =>
    by_cases hk : k = ls.consumed
    · right
      have : runFollow O qy (some k) (l :: rest) ls = ls := by simp [runFollow, hk]
      rw [this]
      exact ⟨hk.symm, hst, runFollow_printed_mono O qy none (l :: rest) ls⟩
    · simp only [runFollow]
      have h1 : (some k == some ls.consumed) = false := by simpa using hk
      have h2 : ((none : Option Nat) == some ls.consumed) = false := by simp
      simp only [h1, h2, Bool.false_eq_true, if_false]
      cases hx : executeLine O qy [] true ls.es l with
      | ok p =>
        obtain ⟨es1, lo1⟩ := p
        simp only
        cases hres : lo1.result with
        | none => simp only; exact ih _ (by simp only; omega) hst
        | some r =>
          simp only
          by_cases hl : lo1.reachedLimit = true
          · left; simp only [hl, if_true]
          · simp only [hl, Bool.false_eq_true, if_false]
            exact ih _ (by simp only; omega) hst
      | error e => left; rfl
      | panic s => left; rfl
      | oracleMissing s => left; rfl

theorem runFollow_consumed_le (O : Oracles) (qy : Query) (sa : Option Nat) (lines : List Line) (ls : LoopState) :
    (runFollow O qy sa lines ls).out.totalLines ≤ ls.out.totalLines + lines.length := by
  induction lines generalizing ls with
  | nil => simp [runFollow]
  | cons l rest ih =>
    simp only [runFollow]
    by_cases hs : (sa == some ls.consumed) = true
    · simp [hs]
    · simp only [hs, Bool.false_eq_true, if_false]
      cases hx : executeLine O qy [] true ls.es l with
      | ok p =>
        obtain ⟨es1, lo1⟩ := p
        simp only
        cases hres : lo1.result with
        | none =>
          simp only
          refine Nat.le_trans (ih _) ?_
          simp only [List.length_cons]; omega
        | some r =>
          simp only
          by_cases hl : lo1.reachedLimit = true
          · simp [hl]
          · simp only [hl, Bool.false_eq_true, if_false]
            refine Nat.le_trans (ih _) ?_
            simp only [List.length_cons]; omega
      | error e => simp
      | panic s => simp
      | oracleMissing s => simp

/-! ### unfolding lemmas for the executed follow loop (for bridging lemmas of other properties: C06, C07, C11) -/

theorem runFollowAll_eq (O : Oracles) (qy : Query) (stopAt : Option Nat) (lines : List Line) :
    runFollowAll O qy stopAt lines = if reachedLimit qy {} then {} else (runFollow O qy stopAt lines {}).out := rfl

theorem runFollowAll_of_not_limit (O : Oracles) (qy : Query) (stopAt : Option Nat) (lines : List Line)
    (h : reachedLimit qy {} = false) : runFollowAll O qy stopAt lines = (runFollow O qy stopAt lines {}).out := by
  simp [runFollowAll, h]

theorem runFollow_nil (O : Oracles) (qy : Query) (stopAt : Option Nat) (ls : LoopState) :
    runFollow O qy stopAt [] ls = ls := rfl

/-- the state in which a delivered line is executed: it has been counted -/
def followCounted (ls : LoopState) : LoopState :=
  { ls with consumed := ls.consumed + 1, out := { ls.out with totalLines := ls.out.totalLines + 1 } }

/-- `single_result` of the follow printer: `output.updated`, i.e. aggregate statement -/
def followSingle (qy : Query) : Bool :=
  match qy.stmt with
  | .aggregate _ => true
  | _ => false

/-- the state after a delivered line whose result table `r` was printed -/
def followResult (qy : Query) (ls : LoopState) (es : EngineState) (r : RowOut) : LoopState :=
  { es := es, consumed := ls.consumed + 1, stop := ls.stop,
    out := { ls.out with totalLines := ls.out.totalLines + 1, printed := ls.out.printed ++ printResult r (followSingle qy) } }

/-- one uninterrupted step, the engine answered without a result table: the loop goes on (the limit flag is not
looked at) -/
theorem runFollow_cons_noresult (O : Oracles) (qy : Query) (l : Line) (rest : List Line) (ls : LoopState)
    (es : EngineState) (lo : LineOut) (hx : executeLine O qy [] true ls.es l = .ok (es, lo)) (hr : lo.result = none) :
    runFollow O qy none (l :: rest) ls = runFollow O qy none rest { (followCounted ls) with es := es } := by
  have h2 : ((none : Option Nat) == some ls.consumed) = false := by simp
  simp only [runFollow, h2, Bool.false_eq_true, if_false, hx, hr, followCounted]

/-- one uninterrupted step with a result table: it is printed; the loop ends there iff the limit flag is set -/
theorem runFollow_cons_result (O : Oracles) (qy : Query) (l : Line) (rest : List Line) (ls : LoopState)
    (es : EngineState) (lo : LineOut) (r : RowOut) (hx : executeLine O qy [] true ls.es l = .ok (es, lo))
    (hr : lo.result = some r) :
    runFollow O qy none (l :: rest) ls =
      (if lo.reachedLimit then { followResult qy ls es r with stop := true }
       else runFollow O qy none rest (followResult qy ls es r)) := by
  have h2 : ((none : Option Nat) == some ls.consumed) = false := by simp
  simp only [runFollow, h2, Bool.false_eq_true, if_false, hx, hr, followResult, followSingle]
  split <;> rfl

/-- one uninterrupted step on which the engine fails: the failure is recorded and the loop ends -/
theorem runFollow_cons_fail (O : Oracles) (qy : Query) (l : Line) (rest : List Line) (ls : LoopState)
    (h : ∀ p, executeLine O qy [] true ls.es l ≠ .ok p) :
    runFollow O qy none (l :: rest) ls =
      { (followCounted ls) with out := failWith (followCounted ls).out (executeLine O qy [] true ls.es l), stop := true } := by
  have h2 : ((none : Option Nat) == some ls.consumed) = false := by simp
  simp only [runFollow, h2, Bool.false_eq_true, if_false, followCounted]
  cases hx : executeLine O qy [] true ls.es l with
  | ok p => exact absurd hx (h p)
  | error e => rfl
  | panic s => rfl
  | oracleMissing s => rfl

end Sqlgrep
