import SqlgrepModel.Lemmas.AggRun
import SqlgrepModel.Lemmas.AggDistinct
import SqlgrepModel.Lemmas.AggFollow
import SqlgrepModel.Lemmas.AggColumns
/-
The result half of the aggregation engine: `publishPercentiles` (the first loop of `execute_result`) cell by cell,
the enumeration of `group_values`, and the rows of the table against the specification.
-/
set_option linter.unusedSimpArgs false
namespace Sqlgrep
open Value Spec.Agg

/-! ### lookups by membership -/

theorem gmGet_of_mem {α : Type} {m : GroupMap α} (hs : GmSorted m) {key : List Value} {subs : List (Nat × α)}
    (h : (key, subs) ∈ m) : gmGet m key = some subs := by
  induction m with
  | nil => simp at h
  | cons g rest ih =>
    unfold GmSorted at hs
    simp only [List.map_cons, List.pairwise_cons] at hs
    rcases List.mem_cons.mp h with h | h
    · subst h
      simp [gmGet, List.find?, cmpList_refl]
    · have hlt : cmpList g.1 key = .lt := hs.1 key (List.mem_map.mpr ⟨(key, subs), h, rfl⟩)
      have := ih hs.2 h
      simp only [gmGet, List.find?, hlt] at this ⊢
      simpa using this

theorem alGet_of_mem {α : Type} {l : List (Nat × α)} (hn : (l.map (·.1)).Nodup) {i : Nat} {a : α}
    (h : (i, a) ∈ l) : alGet l i = some a := by
  induction l with
  | nil => simp at h
  | cons p ps ih =>
    simp only [List.map_cons, List.nodup_cons] at hn
    rw [alGet_cons]
    rcases List.mem_cons.mp h with h | h
    · subst h; simp
    · have : p.1 ≠ i := by
        intro he
        exact hn.1 (List.mem_map.mpr ⟨(i, a), h, he.symm⟩)
      simp only [this, if_false]
      exact ih hn.2 h

theorem gmGet_some_mem {α : Type} {m : GroupMap α} {k : List Value} {subs : List (Nat × α)}
    (h : gmGet m k = some subs) : ∃ key, (key, subs) ∈ m ∧ cmpList key k = .eq := by
  unfold gmGet at h
  cases hf : m.find? (fun g => cmpList g.1 k == .eq) with
  | none => simp [hf] at h
  | some g =>
    simp only [hf, Option.map_some, Option.some.injEq] at h
    have hp := List.find?_some hf
    have hm := List.mem_of_find?_eq_some hf
    refine ⟨g.1, ?_, by simpa using hp⟩
    rw [← h]; exact hm

theorem alGet_some_mem {α : Type} {l : List (Nat × α)} {i : Nat} {a : α} (h : alGet l i = some a) : (i, a) ∈ l := by
  unfold alGet at h
  cases hf : l.find? (fun p => p.1 == i) with
  | none => simp [hf] at h
  | some p =>
    simp only [hf, Option.map_some, Option.some.injEq] at h
    have hp := List.find?_some hf
    have hm := List.mem_of_find?_eq_some hf
    have : p = (i, a) := by
      obtain ⟨p1, p2⟩ := p
      simp only [beq_iff_eq] at hp
      simp only at h
      simp [hp, h]
    rw [← this]; exact hm

/-! ### `publishPercentiles` -/

def pubOf (key : List Value) (p : Nat × Aggregator) : Option (List Value × Nat × Value) :=
  match p.2 with
  | .percentile vals pp => (percentileValue vals pp).map (fun v => (key, p.1, v))
  | _ => none

/-- the `(group key, aggregate index, value)` triples the first loop of `execute_result` writes -/
def pubEntries (aggs : GroupMap Aggregator) : List (List Value × Nat × Value) :=
  aggs.flatMap (fun g => g.2.filterMap (pubOf g.1))

def applyPubs (st : AggState) (es : List (List Value × Nat × Value)) : AggState :=
  es.foldl (fun st e => setVal st e.1 e.2.1 e.2.2) st

theorem applyPubs_append (st : AggState) (a b : List (List Value × Nat × Value)) :
    applyPubs st (a ++ b) = applyPubs (applyPubs st a) b := by
  simp [applyPubs, List.foldl_append]

def pubInner (key : List Value) (st : AggState) (p : Nat × Aggregator) : AggState :=
  match p.2 with
  | .percentile vals pp =>
    match percentileValue vals pp with
    | some v => setVal st key p.1 v
    | none => st
  | _ => st

def pubOuter (st : AggState) (g : List Value × List (Nat × Aggregator)) : AggState := g.2.foldl (pubInner g.1) st

theorem publish_fold (st : AggState) : publishPercentiles st = st.aggs.foldl pubOuter st := rfl

theorem publish_inner (key : List Value) (subs : List (Nat × Aggregator)) (st : AggState) :
    subs.foldl (pubInner key) st = applyPubs st (subs.filterMap (pubOf key)) := by
  induction subs generalizing st with
  | nil => rfl
  | cons p ps ih =>
    obtain ⟨idx, a⟩ := p
    simp only [List.foldl_cons, List.filterMap_cons, pubOf, pubInner]
    cases a with
    | percentile vals pp =>
      cases hv : percentileValue vals pp with
      | none => simp only [hv, Option.map_none]; exact ih st
      | some v => simp only [hv, Option.map_some, applyPubs, List.foldl_cons]; exact ih _
    | _ => exact ih st

theorem publish_eq (st : AggState) : publishPercentiles st = applyPubs st (pubEntries st.aggs) := by
  rw [publish_fold]
  generalize st.aggs = aggs
  induction aggs generalizing st with
  | nil => rfl
  | cons g rest ih =>
    simp only [List.foldl_cons, pubEntries, List.flatMap_cons, applyPubs_append, pubOuter]
    rw [publish_inner]
    exact ih _

theorem applyPubs_aggs (st : AggState) (es : List (List Value × Nat × Value)) : (applyPubs st es).aggs = st.aggs := by
  induction es generalizing st with
  | nil => rfl
  | cons e es ih => simp only [applyPubs, List.foldl_cons] at ih ⊢; rw [ih]; rfl

theorem applyPubs_vals (st : AggState) (es : List (List Value × Nat × Value)) :
    (applyPubs st es).vals = es.foldl (fun m e => gmSet m e.1 e.2.1 e.2.2) st.vals := by
  induction es generalizing st with
  | nil => rfl
  | cons e es ih => simp only [applyPubs, List.foldl_cons] at ih ⊢; rw [ih]; rfl

def pubMatches (k : List Value) (i : Nat) (e : List Value × Nat × Value) : Bool := cmpList e.1 k == .eq && e.2.1 == i

theorem foldSet_sorted {α : Type} (es : List (List Value × Nat × α)) {m : GroupMap α} (hs : GmSorted m) :
    GmSorted (es.foldl (fun m e => gmSet m e.1 e.2.1 e.2.2) m) := by
  induction es generalizing m with
  | nil => exact hs
  | cons e es ih => exact ih (gmSorted_gmModify hs _ _)

/-- lookups after a series of writes: the last matching write, else the old content -/
theorem gmLookup_foldSet (es : List (List Value × Nat × Value)) {m : GroupMap Value} (hs : GmSorted m) (k : List Value) (i : Nat) :
    gmLookup (es.foldl (fun m e => gmSet m e.1 e.2.1 e.2.2) m) k i =
      match es.reverse.find? (pubMatches k i) with
      | some e => some e.2.2
      | none => gmLookup m k i := by
  induction es generalizing m with
  | nil => rfl
  | cons e es ih =>
    simp only [List.foldl_cons, List.reverse_cons, List.find?_append]
    have hs' : GmSorted (gmSet m e.1 e.2.1 e.2.2) := gmSorted_gmModify hs _ _
    rw [ih hs']
    cases hf : es.reverse.find? (pubMatches k i) with
    | some e' => rfl
    | none =>
      simp only [Option.none_or, List.find?, pubMatches]
      rw [gmLookup_gmSet hs]
      by_cases hc : cmpList e.1 k = .eq ∧ e.2.1 = i
      · simp [hc.1, hc.2]
      · simp only [hc, if_false]
        have : (cmpList e.1 k == .eq && e.2.1 == i) = false := by
          cases h1 : cmpList e.1 k == .eq <;> cases h2 : e.2.1 == i <;> simp_all
        simp [this]

theorem pubEntries_mem {aggs : GroupMap Aggregator} {e : List Value × Nat × Value} (h : e ∈ pubEntries aggs) :
    ∃ subs vals pp, (e.1, subs) ∈ aggs ∧ (e.2.1, Aggregator.percentile vals pp) ∈ subs ∧ percentileValue vals pp = some e.2.2 := by
  simp only [pubEntries, List.mem_flatMap, List.mem_filterMap] at h
  obtain ⟨g, hg, p, hp, hpo⟩ := h
  obtain ⟨idx, a⟩ := p
  cases a with
  | percentile vals pp =>
    simp only [pubOf] at hpo
    cases hv : percentileValue vals pp with
    | none => simp [hv] at hpo
    | some v =>
      simp only [hv, Option.map_some, Option.some.injEq] at hpo
      subst hpo
      exact ⟨g.2, vals, pp, hg, hp, hv⟩
  | _ => simp [pubOf] at hpo

theorem pubEntries_of_mem {aggs : GroupMap Aggregator} {key : List Value} {subs : List (Nat × Aggregator)} {i : Nat}
    {vals : List Value} {pp : Nat} {v : Value}
    (hg : (key, subs) ∈ aggs) (hp : (i, Aggregator.percentile vals pp) ∈ subs) (hv : percentileValue vals pp = some v) :
    (key, i, v) ∈ pubEntries aggs := by
  simp only [pubEntries, List.mem_flatMap, List.mem_filterMap]
  exact ⟨(key, subs), hg, (i, .percentile vals pp), hp, by simp [pubOf, hv]⟩

/-- **`publishPercentiles`, cell by cell**: aggregators are untouched; the stored value of a cell becomes what the
cell publishes (a percentile aggregator with at least one value overrides, every other cell keeps its value) -/
theorem readCell_publish {st : AggState} (hs : AggSorted st) (hinner : ∀ g ∈ st.aggs, (g.2.map (·.1)).Nodup)
    (k : List Value) (i : Nat) :
    readCell (publishPercentiles st) k i = { agg := (readCell st k i).agg, val := published (readCell st k i) } := by
  rw [publish_eq]
  simp only [readCell, applyPubs_aggs, applyPubs_vals, gmLookup_foldSet _ hs.vals, Cell.mk.injEq, true_and]
  -- every matching entry carries the value the cell's aggregator publishes
  have hall : ∀ e ∈ pubEntries st.aggs, pubMatches k i e = true →
      ∃ vals pp, gmLookup st.aggs k i = some (.percentile vals pp) ∧ percentileValue vals pp = some e.2.2 := by
    intro e he hm
    obtain ⟨subs, vals, pp, hg, hp, hv⟩ := pubEntries_mem he
    simp only [pubMatches, Bool.and_eq_true, beq_iff_eq] at hm
    refine ⟨vals, pp, ?_, hv⟩
    have h1 : gmGet st.aggs k = some subs := by
      rw [← gmGet_congr st.aggs hm.1]; exact gmGet_of_mem hs.aggs hg
    have h2 : alGet subs i = some (.percentile vals pp) := by
      rw [← hm.2]; exact alGet_of_mem (hinner _ hg) hp
    simp [gmLookup, h1, h2]
  cases hf : (pubEntries st.aggs).reverse.find? (pubMatches k i) with
  | some e =>
    have hmem : e ∈ pubEntries st.aggs := List.mem_reverse.mp (List.mem_of_find?_eq_some hf)
    obtain ⟨vals, pp, hl, hv⟩ := hall e hmem (List.find?_some hf)
    simp [published, hl, hv]
  | none =>
    simp only
    -- no entry: the cell's aggregator publishes nothing
    unfold published
    simp only
    cases hl : gmLookup st.aggs k i with
    | none => rfl
    | some a =>
      cases a with
      | percentile vals pp =>
        cases hv : percentileValue vals pp with
        | none => simp [hv]
        | some v =>
          exfalso
          simp only [gmLookup, Option.bind] at hl
          cases hg : gmGet st.aggs k with
          | none => simp [hg] at hl
          | some subs =>
            simp only [hg] at hl
            obtain ⟨key, hkm, hke⟩ := gmGet_some_mem hg
            have hin := pubEntries_of_mem hkm (alGet_some_mem hl) hv
            have := List.find?_eq_none.mp hf (key, i, v) (List.mem_reverse.mpr hin)
            simp [pubMatches, hke] at this
      | _ => rfl

theorem aggSorted_publish {st : AggState} (hs : AggSorted st) : AggSorted (publishPercentiles st) := by
  rw [publish_eq]
  refine ⟨?_, ?_⟩
  · rw [applyPubs_aggs]; exact hs.aggs
  · rw [applyPubs_vals]; exact foldSet_sorted _ hs.vals

theorem shape_publish {st : AggState} {S : List (List Value)} (h : Shape st S) : Shape (publishPercentiles st) S := by
  rw [publish_eq]
  have : ∀ (es : List (List Value × Nat × Value)) (st : AggState), Shape st S → (∀ e ∈ es, e.1 ∈ S) → Shape (applyPubs st es) S := by
    intro es
    induction es with
    | nil => intro st h _; exact h
    | cons e es ih =>
      intro st h he
      simp only [applyPubs, List.foldl_cons]
      exact ih _ (shape_setVal h (he e (by simp)) _ _) (fun e' he' => he e' (by simp [he']))
  apply this _ _ h
  intro e he
  obtain ⟨subs, _, _, hg, _, _⟩ := pubEntries_mem he
  exact h.aggsKeys _ hg

/-! ### slots of a well-formed statement -/

def havingAggOf : HavingRef → Option (Nat × AggKind)
  | .agg id k => some (id, k)
  | .key _ => none

/-- the lowered statement is consistent: `havingAggs` lists the non-key aggregates of the HAVING walk in order,
and there are none without HAVING (the harness serialises both from the same walk) -/
structure StmtWF (q : AggStmt) : Prop where
  visit : q.havingVisit.filterMap havingAggOf = q.havingAggs
  noHaving : q.having = none → q.havingAggs = []

theorem visitSlots_eq (v : List HavingRef) (n : Nat) :
    visitSlots v n = enumFrom n ((v.filterMap havingAggOf).map (·.2)) := by
  induction v generalizing n with
  | nil => rfl
  | cons r rest ih =>
    cases r with
    | key c => simp only [visitSlots, List.filterMap_cons, havingAggOf]; exact ih n
    | agg id k => simp only [visitSlots, List.filterMap_cons, havingAggOf, List.map_cons, enumFrom]; rw [ih]

theorem mem_enumFrom_append {α : Type} (a b : List α) (n : Nat) :
    enumFrom n (a ++ b) = enumFrom n a ++ enumFrom (n + a.length) b := by
  induction a generalizing n with
  | nil => simp [enumFrom]
  | cons x xs ih =>
    simp only [List.cons_append, enumFrom, ih, List.length_cons]
    have : n + 1 + xs.length = n + (xs.length + 1) := by omega
    rw [this]

/-- for a well-formed statement the slots a row updates are the select-list kinds followed by HAVING's kinds -/
theorem rowSlots_eq {q : AggStmt} (hwf : StmtWF q) : rowSlots q = enumFrom 0 (slotKinds q) := by
  unfold rowSlots slotKinds
  rw [mem_enumFrom_append]
  simp only [Nat.zero_add, List.length_map]
  cases hh : q.having with
  | none => simp [hwf.noHaving hh, enumFrom]
  | some h => simp only [visitSlots_eq, hwf.visit]

theorem enumFrom_mem_map {α β : Type} (f : α → β) (l : List α) (n i : Nat) (x : α) (h : (i, x) ∈ enumFrom n l) :
    (i, f x) ∈ enumFrom n (l.map f) := by
  induction l generalizing n with
  | nil => simp [enumFrom] at h
  | cons y ys ih =>
    simp only [enumFrom, List.map_cons, List.mem_cons] at h ⊢
    rcases h with h | h
    · simp only [Prod.mk.injEq] at h; exact Or.inl (by simp [h.1, h.2])
    · exact Or.inr (ih (n + 1) h)

theorem enumFrom_mem_append_left {α : Type} (a b : List α) (n i : Nat) (x : α) (h : (i, x) ∈ enumFrom n a) :
    (i, x) ∈ enumFrom n (a ++ b) := by
  rw [mem_enumFrom_append]; exact List.mem_append_left _ h

theorem enumFrom_mem_append_right {α : Type} (a b : List α) (n i : Nat) (x : α) (h : (i, x) ∈ enumFrom (n + a.length) b) :
    (i, x) ∈ enumFrom n (a ++ b) := by
  rw [mem_enumFrom_append]; exact List.mem_append_right _ h

theorem enumFrom_exists {α : Type} (l : List α) (n : Nat) (x : α) (h : x ∈ l) : ∃ i, (i, x) ∈ enumFrom n l := by
  induction l generalizing n with
  | nil => simp at h
  | cons y ys ih =>
    rcases List.mem_cons.mp h with h | h
    · subst h; exact ⟨n, by simp [enumFrom]⟩
    · obtain ⟨i, hi⟩ := ih (n + 1) h
      exact ⟨i, by simp [enumFrom, hi]⟩

/-! ### from the fold over rows to the fold over argument values -/

theorem cellFold_args {O : Oracles} {q : AggStmt} {kind : AggKind} (g : List Env) (c c' : Cell)
    (h : cellFold O q kind g c = .ok c') :
    ∃ vs, arguments O q kind g = some vs ∧ foldV kind vs c = .ok c' := by
  induction g generalizing c with
  | nil =>
    simp only [cellFold, Outcome.ok.injEq] at h
    subst h
    exact ⟨[], rfl, rfl⟩
  | cons env rest ih =>
    simp only [cellFold] at h
    obtain ⟨c1, h1, h2⟩ := obind_ok h
    rw [cellStep_eq] at h1
    obtain ⟨v, hv, hs⟩ := obind_ok h1
    obtain ⟨vs, hvs, hf⟩ := ih c1 h2
    refine ⟨v :: vs, ?_, ?_⟩
    · simp only [arguments, List.map_cons, hv, okOf, collect] at hvs ⊢
      rw [hvs]; rfl
    · simp only [foldV, hs, Outcome.bind]; exact hf

theorem arguments_length {O : Oracles} {q : AggStmt} {kind : AggKind} {g : List Env} {vs : List Value}
    (h : arguments O q kind g = some vs) : vs.length = g.length := by
  induction g generalizing vs with
  | nil => simp [arguments, collect] at h; subst h; rfl
  | cons env rest ih =>
    simp only [arguments, List.map_cons] at h
    cases ha : okOf (argument O q env kind) with
    | none => simp [ha, collect] at h
    | some a =>
      rw [ha] at h
      obtain ⟨l', h', hl⟩ := collect_eq_some_cons h
      subst hl
      simp [ih h']

/-- **one aggregate of one group**: if the cell is the fold over the group's rows and the specification fixes the
value of the aggregate over those rows, the cell shows that value, and it has an entry exactly as `createsEntry` says -/
theorem slot_value {O : Oracles} {q : AggStmt} {kind : AggKind} {g : List Env} {c : Cell} {r : Value}
    (hg : g ≠ []) (hf : cellFold O q kind g {} = .ok c) (hv : groupValue O q kind g = some r)
    (hd15 : ∀ vs, arguments O q kind g = some vs → firstNull kind vs = false) :
    shownValue kind c = r ∧ ∃ vs, arguments O q kind g = some vs ∧ (published c).isSome = createsEntry kind vs := by
  obtain ⟨vs, hvs, hfv⟩ := cellFold_args g {} c hf
  simp only [groupValue, hvs, Option.bind_some] at hv
  have hne : vs ≠ [] := by
    intro he
    have := arguments_length hvs
    rw [he] at this
    cases g with
    | nil => exact hg rfl
    | cons _ _ => simp at this
  obtain ⟨c', hc', hshow, hvis⟩ := aggregate_refines kind vs r hne hv (hd15 vs hvs)
  rw [hfv] at hc'
  simp only [Outcome.ok.injEq] at hc'
  subst hc'
  exact ⟨hshow, vs, hvs, hvis⟩

/-! ### one group in the result loop -/

/-- what the result loop sees of one group: for every slot whose value the specification fixes, the stored value
(or the aggregate's empty value when there is no entry) is that value -/
structure GroupView (O : Oracles) (q : AggStmt) (subs : List (Nat × Value)) (g : List Env) : Prop where
  slot : ∀ i kind r, (i, kind) ∈ enumFrom 0 (slotKinds q) → groupValue O q kind g = some r →
    (alGet subs i).getD (emptyGroupValue kind) = r

theorem okOf_eq_some {α : Type} {o : Outcome α} {a : α} (h : okOf o = some a) : o = .ok a := by
  cases o <;> simp [okOf] at h; rw [h]

theorem cellOf_nonkey (O : Oracles) (q : AggStmt) (i : Nat) (item : AggItem) (key : List Value) (subs : List (Nat × Value))
    (hk : ∀ e c, item.kind ≠ .groupKey e c) :
    cellOf O q i item key subs = applyTransform O item.transform ((alGet subs i).getD (emptyGroupValue item.kind)) := by
  unfold cellOf
  cases h : item.kind with
  | groupKey e c => exact absurd h (hk e c)
  | _ => rfl

theorem cell_nonkey (O : Oracles) (q : AggStmt) (key : List Value) (g : List Env) (item : AggItem)
    (hk : ∀ e c, item.kind ≠ .groupKey e c) :
    cell O q key g item = (groupValue O q item.kind g).bind (fun v => okOf (applyTransform O item.transform v)) := by
  unfold cell
  cases h : item.kind with
  | groupKey e c => exact absurd h (hk e c)
  | _ => rfl

theorem cell_view {O : Oracles} {q : AggStmt} {key : List Value} {subs : List (Nat × Value)} {g : List Env}
    (hv : GroupView O q subs g) {i : Nat} {item : AggItem} (hslot : (i, item.kind) ∈ enumFrom 0 (slotKinds q)) {v : Value}
    (h : cell O q key g item = some v) : cellOf O q i item key subs = .ok v := by
  by_cases hk : ∃ e c, item.kind = .groupKey e c
  · obtain ⟨e, canon, hk⟩ := hk
    unfold cell at h
    unfold cellOf
    rw [hk] at h ⊢
    simp only at h ⊢
    cases hm : mappingGet (keyMapping q) canon with
    | none => simp [hm] at h
    | some j =>
      simp only [hm, Option.bind_some] at h
      simp only [h]
  · have hk' : ∀ e c, item.kind ≠ .groupKey e c := fun e c he => hk ⟨e, c, he⟩
    rw [cell_nonkey O q key g item hk'] at h
    rw [cellOf_nonkey O q i item key subs hk']
    cases hgv : groupValue O q item.kind g with
    | none => simp [hgv] at h
    | some r =>
      simp only [hgv, Option.bind_some] at h
      rw [hv.slot i _ r hslot hgv]
      exact okOf_eq_some h

theorem rowOf_view {O : Oracles} {q : AggStmt} {key : List Value} {subs : List (Nat × Value)} {g : List Env}
    (hv : GroupView O q subs g) (items : List AggItem) (n : Nat)
    (hslots : ∀ i item, (i, item) ∈ enumFrom n items → (i, item.kind) ∈ enumFrom 0 (slotKinds q))
    {r : List Value} (h : collect (items.map (cell O q key g)) = some r) :
    rowOf O q key subs (enumFrom n items) = .ok r := by
  induction items generalizing n r with
  | nil => simp [collect] at h; subst h; rfl
  | cons item rest ih =>
    simp only [List.map_cons] at h
    cases hc : cell O q key g item with
    | none => simp [hc, collect] at h
    | some v =>
      rw [hc] at h
      obtain ⟨r', hr', hr⟩ := collect_eq_some_cons h
      subst hr
      simp only [enumFrom, rowOf]
      rw [cell_view hv (hslots n item (by simp [enumFrom])) hc]
      rw [ih (n + 1) (fun i it hm => hslots i it (by simp [enumFrom, hm])) hr']
      rfl

theorem items_slots (q : AggStmt) : ∀ i item, (i, item) ∈ enumFrom 0 q.items → (i, item.kind) ∈ enumFrom 0 (slotKinds q) := by
  intro i item h
  unfold slotKinds
  exact enumFrom_mem_append_left _ _ _ _ _ (enumFrom_mem_map (·.kind) _ _ _ _ h)

/-- the row of a group: the specification's row -/
theorem row_view {O : Oracles} {q : AggStmt} {key : List Value} {subs : List (Nat × Value)} {g : List Env}
    (hv : GroupView O q subs g) {r : List Value} (h : row O q key g = some r) :
    rowOf O q key subs (enumFrom 0 q.items) = .ok r :=
  rowOf_view hv q.items 0 (items_slots q) h

theorem having_slots (q : AggStmt) : ∀ j p, (j, p) ∈ enumFrom 0 q.havingAggs →
    (q.items.length + j, p.2) ∈ enumFrom 0 (slotKinds q) := by
  intro j p h
  unfold slotKinds
  apply enumFrom_mem_append_right
  simp only [Nat.zero_add, List.length_map]
  have := enumFrom_mem_map (·.2) _ _ _ _ h
  -- shift the enumeration by the number of select-list items
  have hshift : ∀ {α : Type} (l : List α) (a b i : Nat) (x : α), (i, x) ∈ enumFrom a l → (b + i, x) ∈ enumFrom (b + a) l := by
    intro α l
    induction l with
    | nil => intro a b i x h; simp [enumFrom] at h
    | cons y ys ih =>
      intro a b i x h
      simp only [enumFrom, List.mem_cons] at h ⊢
      rcases h with h | h
      · simp only [Prod.mk.injEq] at h; exact Or.inl (by simp [h.1, h.2])
      · exact Or.inr (ih (a + 1) b i x h)
  exact hshift _ 0 q.items.length j p.2 this

theorem gvals_view {O : Oracles} {q : AggStmt} {subs : List (Nat × Value)} {g : List Env}
    (hv : GroupView O q subs g) (aggs : List (Nat × AggKind)) (n : Nat)
    (hslots : ∀ j p, (j, p) ∈ enumFrom n aggs → (q.items.length + j, p.2) ∈ enumFrom 0 (slotKinds q))
    {gvals : List (Nat × Value)}
    (h : collect (aggs.map (fun (p : Nat × AggKind) => (groupValue O q p.2 g).map (fun v => (p.1, v)))) = some gvals) :
    (enumFrom n aggs).map (fun (jp : Nat × Nat × AggKind) =>
      (jp.2.1, (alGet subs (q.items.length + jp.1)).getD (emptyGroupValue jp.2.2))) = gvals := by
  induction aggs generalizing n gvals with
  | nil => simp [collect] at h; subst h; rfl
  | cons p rest ih =>
    simp only [List.map_cons] at h
    cases hg : groupValue O q p.2 g with
    | none => simp [hg, collect] at h
    | some v =>
      simp only [hg, Option.map_some] at h
      obtain ⟨l', hl', hl⟩ := collect_eq_some_cons h
      subst hl
      simp only [enumFrom, List.map_cons]
      rw [hv.slot _ _ v (hslots n p (by simp [enumFrom])) hg]
      rw [ih (n + 1) (fun j p' hm => hslots j p' (by simp [enumFrom, hm])) hl']

/-- HAVING on a group: the specification's verdict -/
theorem accept_view {O : Oracles} {q : AggStmt} {key : List Value} {subs : List (Nat × Value)} {g : List Env}
    (hv : GroupView O q subs g) {a : Bool} (h : accept O q key g = some a) :
    (match q.having with
      | some hx => acceptGroup O q hx key subs
      | none => pure true : Outcome Bool) = .ok a := by
  unfold accept at h
  cases hh : q.having with
  | none => simp [hh] at h; subst h; rfl
  | some hx =>
    simp only [hh] at h ⊢
    split at h
    · simp at h
    · rename_i gvals hgv
      have hg := gvals_view hv q.havingAggs 0 (having_slots q) hgv
      cases he : eval O { groupKeys := keyBindings q key, groupValues := gvals } hx with
      | ok v =>
        simp only [he, okOf, Option.bind_some] at h
        unfold acceptGroup
        simp only [keyBindings] at he
        simp only [bind, Outcome.bind, pure]
        have : (enumFrom 0 q.havingAggs).map (fun (x : Nat × Nat × AggKind) =>
            match x with
            | (j, (id, k)) => (id, (alGet subs (q.items.length + j)).getD (emptyGroupValue k))) = gvals := hg
        rw [this, he]
        cases hc : condHolds v with
        | ok b => simp only [hc, Option.some.injEq] at h; subst h; exact hc
        | error k => simp [hc] at h
        | panic k => simp [hc] at h
        | oracleMissing k => simp [hc] at h
      | error k => simp [he, okOf] at h
      | panic k => simp [he, okOf] at h
      | oracleMissing k => simp [he, okOf] at h

/-! ### the table -/

/-- the groups of `group_values` seen next to the specification's groups, key by key -/
inductive Views (O : Oracles) (q : AggStmt) : List (List Value × List (Nat × Value)) → List (List Value × List Env) → Prop
  | nil : Views O q [] []
  | cons {key : List Value} {subs : List (Nat × Value)} {g : List Env} {V : List (List Value × List (Nat × Value))}
      {G : List (List Value × List Env)} : GroupView O q subs g → Views O q V G → Views O q ((key, subs) :: V) ((key, g) :: G)

/-- the DISTINCT pass of `execute_result` over the kept rows -/
def distinctPass (seen : List (List Value)) : List (List Value) → List (List Value)
  | [] => []
  | r :: rs => if seen.any (tupleSame r) then distinctPass seen rs else r :: distinctPass (r :: seen) rs

def keptRows (all : List (List Value × Bool)) : List (List Value) := (all.filter (·.2)).map (·.1)

def perGroup (O : Oracles) (q : AggStmt) (kg : List Value × List Env) : Option (List Value × Bool) :=
  (row O q kg.1 kg.2).bind (fun r => (accept O q kg.1 kg.2).map (fun a => (r, a)))

/-- HAVING on one group of `group_values` (always true without HAVING) -/
def havingOk (O : Oracles) (q : AggStmt) (key : List Value) (subs : List (Nat × Value)) : Outcome Bool :=
  match q.having with
  | some h => acceptGroup O q h key subs
  | none => pure true

theorem resultRows_cons (O : Oracles) (q : AggStmt) (key : List Value) (subs : List (Nat × Value))
    (rest : List (List Value × List (Nat × Value))) (seen : List (List Value)) :
    resultRows O q ((key, subs) :: rest) seen =
      (rowOf O q key subs (enumFrom 0 q.items)).bind (fun row =>
        (havingOk O q key subs).bind (fun keep =>
          if !keep then resultRows O q rest seen
          else if q.distinct then
            if (distinctAdd seen row).2 then (resultRows O q rest (distinctAdd seen row).1).bind (fun more => .ok (row :: more))
            else resultRows O q rest (distinctAdd seen row).1
          else (resultRows O q rest seen).bind (fun more => .ok (row :: more)))) := rfl

theorem resultRows_view {O : Oracles} {q : AggStmt} {V : List (List Value × List (Nat × Value))}
    {G : List (List Value × List Env)} (hv : Views O q V G) (seen : List (List Value)) {all : List (List Value × Bool)}
    (h : collect (G.map (perGroup O q)) = some all) :
    resultRows O q V seen = .ok (if q.distinct then distinctPass seen (keptRows all) else keptRows all) := by
  induction hv generalizing seen all with
  | nil => simp [collect] at h; subst h; cases q.distinct <;> rfl
  | @cons key subs g V G hview hrest ih =>
    simp only [List.map_cons] at h
    cases hp : perGroup O q (key, g) with
    | none => simp [hp, collect] at h
    | some ra =>
      rw [hp] at h
      obtain ⟨all', hall', hall⟩ := collect_eq_some_cons h
      subst hall
      obtain ⟨r, a⟩ := ra
      simp only [perGroup] at hp
      cases hr : row O q key g with
      | none => simp [hr] at hp
      | some r' =>
        simp only [hr, Option.bind_some] at hp
        cases ha : accept O q key g with
        | none => simp [ha] at hp
        | some a' =>
          simp only [ha, Option.map_some, Option.some.injEq, Prod.mk.injEq] at hp
          obtain ⟨h1, h2⟩ := hp
          subst h1; subst h2
          have hacc : havingOk O q key subs = .ok a' := accept_view hview ha
          rw [resultRows_cons, row_view hview hr, hacc]
          simp only [Outcome.bind]
          cases a' with
          | false =>
            simp only [Bool.not_false, if_true]
            rw [ih seen hall']
            simp [keptRows]
          | true =>
            simp only [Bool.not_true, Bool.false_eq_true, if_false]
            cases hd : q.distinct with
            | false =>
              simp only [Bool.false_eq_true, if_false]
              rw [ih seen hall']
              simp [keptRows, hd]
            | true =>
              simp only [if_true, distinctAdd]
              by_cases hs : seen.any (tupleSame r') = true
              · simp only [hs, if_true, Bool.false_eq_true, if_false]
                rw [ih seen hall']
                simp [keptRows, hd, distinctPass, hs]
              · simp only [hs, Bool.false_eq_true, if_false, if_true]
                rw [ih (r' :: seen) hall']
                simp [keptRows, hd, distinctPass, hs]

/-- every group of a viewed state has its row -/
theorem rows_view {O : Oracles} {q : AggStmt} {V : List (List Value × List (Nat × Value))}
    {G : List (List Value × List Env)} (hv : Views O q V G) {all : List (List Value × Bool)}
    (h : collect (G.map (perGroup O q)) = some all) :
    ∀ x ∈ V, ∃ r, rowOf O q x.1 x.2 (enumFrom 0 q.items) = .ok r := by
  induction hv generalizing all with
  | nil => intro x hx; simp at hx
  | @cons key subs g V G hview hrest ih =>
    simp only [List.map_cons] at h
    cases hp : perGroup O q (key, g) with
    | none => simp [hp, collect] at h
    | some ra =>
      rw [hp] at h
      obtain ⟨all', hall', _⟩ := collect_eq_some_cons h
      simp only [perGroup] at hp
      cases hr : row O q key g with
      | none => simp [hr] at hp
      | some r' =>
        intro x hx
        rcases List.mem_cons.mp hx with hx | hx
        · subst hx; exact ⟨r', row_view hview hr⟩
        · exact ih hall' x hx

/-- the column pass of `execute_result` (`extract_result_rows_by_column`) answers on a viewed state: success does not
depend on the order of the loops (`aggColumns_ok_iff_rows`) -/
theorem checkRows_view {O : Oracles} {q : AggStmt} {V : List (List Value × List (Nat × Value))}
    {G : List (List Value × List Env)} (hv : Views O q V G) {all : List (List Value × Bool)}
    (h : collect (G.map (perGroup O q)) = some all) :
    ∃ cs, aggColumns O q V (enumFrom 0 q.items) = .ok cs :=
  aggColumns_ok_of_rows (rows_view hv h)

/-! ### DISTINCT -/

theorem beqList_symm (a b : List Value) : Value.beqList a b = Value.beqList b a := by
  cases hab : Value.beqList a b <;> cases hba : Value.beqList b a <;> try rfl
  · have := cmpList_eq_symm ((cmpList_eq_iff_beqList b a).mpr hba)
    rw [cmpList_eq_iff_beqList, hab] at this; exact this
  · have := cmpList_eq_symm ((cmpList_eq_iff_beqList a b).mpr hab)
    rw [cmpList_eq_iff_beqList, hba] at this; exact this.symm

theorem beqList_trans {a b c : List Value} (h1 : Value.beqList a b = true) (h2 : Value.beqList b c = true) :
    Value.beqList a c = true := by
  rw [← cmpList_eq_iff_beqList] at *
  exact cmpList_eq_trans h1 h2

/-- the DISTINCT memory's membership test is tuple equality (equal tuples feed equal hash streams) -/
theorem tupleSame_eq_beqList (a b : List Value) : tupleSame a b = Value.beqList a b := by
  unfold tupleSame
  cases h : Value.beqList a b
  · simp
  · simp [hashList_eq_of_beqList a b h]

def notSeenRow (seen : List (List Value)) (x : List Value) : Bool := !seen.any (fun s => Value.beqList x s)

theorem distinctPass_eq (seen rs : List (List Value)) :
    distinctPass seen rs = (firstRows rs).filter (notSeenRow seen) := by
  induction rs generalizing seen with
  | nil => rfl
  | cons r rs ih =>
    simp only [distinctPass, firstRows]
    by_cases hs : seen.any (tupleSame r) = true
    · simp only [hs, if_true]
      rw [ih seen]
      have hr : notSeenRow seen r = false := by
        simp only [notSeenRow, Bool.not_eq_false']
        rw [List.any_eq_true] at hs ⊢
        obtain ⟨s, hs1, hs2⟩ := hs
        exact ⟨s, hs1, by rw [← tupleSame_eq_beqList]; exact hs2⟩
      rw [List.filter_cons_of_neg (by simp [hr]), List.filter_filter]
      apply List.filter_congr
      intro x _
      cases hx : notSeenRow seen x
      · simp
      · simp only [Bool.true_and]
        cases hrx : Value.beqList r x
        · rfl
        · exfalso
          simp only [notSeenRow, Bool.not_eq_true', Bool.not_eq_false'] at hx hr
          rw [List.any_eq_true] at hr
          obtain ⟨s, hs1, hs2⟩ := hr
          have : Value.beqList x s = true := beqList_trans (by rw [beqList_symm]; exact hrx) hs2
          have hh : seen.any (fun s => Value.beqList x s) = true := List.any_eq_true.mpr ⟨s, hs1, this⟩
          rw [hh] at hx; exact absurd hx (by simp)
    · simp only [hs, Bool.false_eq_true, if_false]
      rw [ih (r :: seen)]
      have hr : notSeenRow seen r = true := by
        simp only [notSeenRow, Bool.not_eq_true']
        cases h : seen.any (fun s => Value.beqList r s)
        · rfl
        · exfalso; apply hs
          rw [List.any_eq_true] at h ⊢
          obtain ⟨s, hs1, hs2⟩ := h
          exact ⟨s, hs1, by rw [tupleSame_eq_beqList]; exact hs2⟩
      rw [List.filter_cons_of_pos hr, List.filter_filter]
      congr 1
      apply List.filter_congr
      intro x _
      simp only [notSeenRow, List.any_cons, Bool.not_or, beqList_symm x r, Bool.and_comm]

theorem distinctPass_nil (rs : List (List Value)) : distinctPass [] rs = firstRows rs := by
  rw [distinctPass_eq]
  apply List.filter_eq_self.mpr; intro x _; rfl

/-! ### key lists -/

abbrev KeyLt (a b : List Value) : Prop := cmpList a b = .lt

theorem keyLt_irrefl (a : List Value) : ¬ KeyLt a a := by
  unfold KeyLt; rw [cmpList_refl]; simp

theorem keyLt_asymm {a b : List Value} (h : KeyLt a b) : ¬ KeyLt b a := by
  unfold KeyLt at *
  rw [cmpList_gt_of_lt h]; simp

/-- strictly ascending lists with the same members are equal -/
theorem sorted_ext {l1 l2 : List (List Value)} (h1 : l1.Pairwise KeyLt) (h2 : l2.Pairwise KeyLt)
    (hm : ∀ x, x ∈ l1 ↔ x ∈ l2) : l1 = l2 := by
  induction l1 generalizing l2 with
  | nil =>
    cases l2 with
    | nil => rfl
    | cons b u => exact absurd ((hm b).mpr (by simp)) (by simp)
  | cons a t ih =>
    cases l2 with
    | nil => exact absurd ((hm a).mp (by simp)) (by simp)
    | cons b u =>
      rw [List.pairwise_cons] at h1 h2
      have hab : a = b := by
        have ha := (hm a).mp (by simp)
        have hb := (hm b).mpr (by simp)
        rcases List.mem_cons.mp ha with ha | ha
        · exact ha
        · rcases List.mem_cons.mp hb with hb | hb
          · exact hb.symm
          · exact absurd (h1.1 b hb) (keyLt_asymm (h2.1 a ha))
      subst hab
      congr 1
      apply ih h1.2 h2.2
      intro x
      constructor
      · intro hx
        rcases List.mem_cons.mp ((hm x).mp (by simp [hx])) with h | h
        · subst h; exact absurd (h1.1 x hx) (keyLt_irrefl x)
        · exact h
      · intro hx
        rcases List.mem_cons.mp ((hm x).mpr (by simp [hx])) with h | h
        · subst h; exact absurd (h2.1 x hx) (keyLt_irrefl x)
        · exact h

theorem mem_insertKey_of_mem {k x : List Value} {ks : List (List Value)} (h : x ∈ ks) : x ∈ insertKey k ks := by
  induction ks with
  | nil => simp at h
  | cons y ys ih =>
    simp only [insertKey]
    cases cmpList k y <;> simp only [List.mem_cons] at h ⊢
    · exact Or.inr h
    · exact h
    · rcases h with h | h
      · exact Or.inl h
      · exact Or.inr (ih h)

theorem insertKey_cover (k : List Value) (ks : List (List Value)) : ∃ k' ∈ insertKey k ks, cmpList k' k = .eq := by
  induction ks with
  | nil => exact ⟨k, by simp [insertKey], cmpList_refl k⟩
  | cons y ys ih =>
    simp only [insertKey]
    cases hc : cmpList k y
    · exact ⟨k, by simp, cmpList_refl k⟩
    · exact ⟨y, by simp, cmpList_eq_symm hc⟩
    · obtain ⟨k', hk', he⟩ := ih
      exact ⟨k', by simp [hk'], he⟩

theorem foldKeys_sorted (ks acc : List (List Value)) (h : acc.Pairwise KeyLt) :
    (ks.foldl (fun acc k => insertKey k acc) acc).Pairwise KeyLt := by
  induction ks generalizing acc with
  | nil => exact h
  | cons k ks ih => exact ih _ (insertKey_sorted h)

theorem foldKeys_sub (ks acc : List (List Value)) :
    ∀ x ∈ ks.foldl (fun acc k => insertKey k acc) acc, x ∈ acc ∨ x ∈ ks := by
  induction ks generalizing acc with
  | nil => intro x hx; exact Or.inl hx
  | cons k ks ih =>
    intro x hx
    rcases ih _ x hx with h | h
    · rcases insertKey_mem h with h | h
      · exact Or.inr (by simp [h])
      · exact Or.inl h
    · exact Or.inr (by simp [h])

theorem foldKeys_keep (ks acc : List (List Value)) : ∀ x ∈ acc, x ∈ ks.foldl (fun acc k => insertKey k acc) acc := by
  induction ks generalizing acc with
  | nil => intro x hx; exact hx
  | cons k ks ih => intro x hx; exact ih _ x (mem_insertKey_of_mem hx)

theorem foldKeys_cover (ks acc : List (List Value)) :
    ∀ k ∈ ks, ∃ k' ∈ ks.foldl (fun acc k => insertKey k acc) acc, cmpList k' k = .eq := by
  induction ks generalizing acc with
  | nil => intro k hk; simp at hk
  | cons y ys ih =>
    intro k hk
    rcases List.mem_cons.mp hk with hk | hk
    · subst hk
      obtain ⟨k', hk', he⟩ := insertKey_cover k acc
      exact ⟨k', foldKeys_keep ys _ k' hk', he⟩
    · exact ih _ k hk

theorem distinctKeys_sorted (ks : List (List Value)) : (distinctKeys ks).Pairwise KeyLt :=
  foldKeys_sorted ks [] List.Pairwise.nil

theorem distinctKeys_sub (ks : List (List Value)) : ∀ x ∈ distinctKeys ks, x ∈ ks := by
  intro x hx
  rcases foldKeys_sub ks [] x hx with h | h
  · simp at h
  · exact h

theorem distinctKeys_cover (ks : List (List Value)) : ∀ k ∈ ks, ∃ k' ∈ distinctKeys ks, cmpList k' k = .eq :=
  foldKeys_cover ks []

/-- keys that are equal in the value order are identical (holds for keys without REAL and array components) -/
def KeysExact (ks : List (List Value)) : Prop := ∀ a ∈ ks, ∀ b ∈ ks, cmpList a b = .eq → a = b

theorem distinctKeys_mem_iff {ks : List (List Value)} (hex : KeysExact ks) (k : List Value) :
    k ∈ distinctKeys ks ↔ k ∈ ks := by
  constructor
  · exact distinctKeys_sub ks k
  · intro hk
    obtain ⟨k', hk', he⟩ := distinctKeys_cover ks k hk
    rw [← hex k' (distinctKeys_sub ks k' hk') k hk he]; exact hk'

/-! ### assembling the result half -/

theorem collect_some_mem {α : Type} {l : List (Option α)} {r : List α} (h : collect l = some r) :
    ∀ o ∈ l, ∃ a, o = some a := by
  induction l generalizing r with
  | nil => intro o ho; simp at ho
  | cons x xs ih =>
    intro o ho
    cases x with
    | none => simp [collect] at h
    | some a =>
      obtain ⟨r', hr', _⟩ := collect_eq_some_cons h
      rcases List.mem_cons.mp ho with ho | ho
      · exact ⟨a, ho⟩
      · exact ih hr' o ho

theorem enumFrom_mem_snd {α : Type} (l : List α) (n i : Nat) (x : α) (h : (i, x) ∈ enumFrom n l) : x ∈ l := by
  induction l generalizing n with
  | nil => simp [enumFrom] at h
  | cons y ys ih =>
    simp only [enumFrom, List.mem_cons, Prod.mk.injEq] at h
    rcases h with h | h
    · simp [h.2]
    · exact List.mem_cons_of_mem _ (ih (n + 1) h)

/-- every non-key slot of a group whose row and HAVING verdict the specification fixes has a fixed value -/
theorem perGroup_values {O : Oracles} {q : AggStmt} (hwf : StmtWF q) {k : List Value} {g : List Env} {ra : List Value × Bool}
    (h : perGroup O q (k, g) = some ra) :
    ∀ kind ∈ slotKinds q, (∀ e c, kind ≠ .groupKey e c) → ∃ r, groupValue O q kind g = some r := by
  intro kind hkind hnk
  simp only [perGroup] at h
  cases hr : row O q k g with
  | none => simp [hr] at h
  | some r' =>
    simp only [hr, Option.bind_some] at h
    cases ha : accept O q k g with
    | none => simp [ha] at h
    | some a =>
      simp only [slotKinds, List.mem_append, List.mem_map] at hkind
      rcases hkind with ⟨item, hitem, hik⟩ | ⟨p, hp, hpk⟩
      · obtain ⟨v, hv⟩ := collect_some_mem hr (cell O q k g item) (List.mem_map.mpr ⟨item, hitem, rfl⟩)
        rw [cell_nonkey O q k g item (by rw [hik]; exact hnk), hik] at hv
        cases hg : groupValue O q kind g with
        | none => simp [hg] at hv
        | some r => exact ⟨r, rfl⟩
      · unfold accept at ha
        cases hh : q.having with
        | none => rw [hwf.noHaving hh] at hp; simp at hp
        | some hx =>
          simp only [hh] at ha
          split at ha
          · simp at ha
          · rename_i gvals hgv
            obtain ⟨x, hx'⟩ := collect_some_mem hgv _ (List.mem_map.mpr ⟨p, hp, rfl⟩)
            obtain ⟨id, kd⟩ := p
            simp only at hx' hpk
            subst hpk
            cases hg : groupValue O q kd g with
            | none => simp [hg] at hx'
            | some r => exact ⟨r, rfl⟩

theorem rowsOfKey_ne_nil {rows : List (List Value × Env)} {k : List Value} (hk : k ∈ rows.map (·.1)) :
    rowsOfKey k rows ≠ [] := by
  obtain ⟨r, hr, hrk⟩ := List.mem_map.mp hk
  intro he
  have : r.2 ∈ rowsOfKey k rows := by
    simp only [rowsOfKey, List.mem_map, List.mem_filter]
    exact ⟨r, ⟨hr, by simp [sameKey, hrk, cmpList_refl]⟩, rfl⟩
  rw [he] at this; simp at this

theorem views_of_keys {O : Oracles} {q : AggStmt} (rows : List (List Value × Env))
    (V : List (List Value × List (Nat × Value)))
    (h : ∀ p ∈ V, GroupView O q p.2 (rowsOfKey p.1 rows)) :
    Views O q V ((V.map (·.1)).map (fun k => (k, rowsOfKey k rows))) := by
  induction V with
  | nil => exact Views.nil
  | cons p V ih =>
    obtain ⟨key, subs⟩ := p
    simp only [List.map_cons]
    exact Views.cons (h (key, subs) (by simp)) (ih (fun p hp => h p (by simp [hp])))

theorem aggResult_eq (O : Oracles) (q : AggStmt) (st : AggState) :
    aggResult O q st =
      (aggColumns O q (publishPercentiles st).vals (enumFrom 0 q.items)).bind (fun _ =>
        (resultRows O q (publishPercentiles st).vals []).bind (fun rows =>
          .ok (publishPercentiles st, { columns := q.items.map (·.name), rows := rows }))) := rfl

theorem tableOfGroups_eq (O : Oracles) (q : AggStmt) (gs : List (List Value × List Env)) :
    tableOfGroups O q gs =
      match collect (gs.map (perGroup O q)) with
      | none => none
      | some all =>
        some (match q.limit with
          | some n => (if q.distinct then firstRows (keptRows all) else keptRows all).take n
          | none => if q.distinct then firstRows (keptRows all) else keptRows all) := rfl

/-- no ARRAY_AGG slot of the group starts with NULL -/
theorem firstNull_of_group {O : Oracles} {q : AggStmt} {g : List Env} (h : arrayAggFirstNull O q g = false)
    {kind : AggKind} (hk : kind ∈ slotKinds q) : ∀ vs, arguments O q kind g = some vs → firstNull kind vs = false := by
  intro vs hvs
  unfold arrayAggFirstNull at h
  have := List.any_eq_false.mp h kind hk
  simpa [hvs] using this

/-- the value a slot shows after `publishPercentiles`, for a group of a coupled state -/
theorem coupled_slot {O : Oracles} {q : AggStmt} (hwf : StmtWF q) {st : AggState} {rows : List (List Value × Env)}
    (hc : CoupledP O q st rows) {key : List Value} (hk : key ∈ rows.map (·.1))
    (hd15 : arrayAggFirstNull O q (rowsOfKey key rows) = false)
    {i : Nat} {kind : AggKind} (hslot : (i, kind) ∈ enumFrom 0 (slotKinds q)) {r : Value}
    (hv : groupValue O q kind (rowsOfKey key rows) = some r) :
    ((readCell (publishPercentiles st) key i).val).getD (emptyGroupValue kind) = r ∧
      ∃ vs, arguments O q kind (rowsOfKey key rows) = some vs ∧
        (readCell (publishPercentiles st) key i).val.isSome = createsEntry kind vs := by
  obtain ⟨c, hcell, hsim⟩ := hc.cells key i kind (by rw [rowSlots_eq hwf]; exact hslot)
  have := slot_value (rowsOfKey_ne_nil hk) hcell hv (firstNull_of_group hd15 (enumFrom_mem_snd _ _ _ _ hslot))
  rw [readCell_publish hc.sorted hc.shape.aggsInner]
  simp only [hsim.published]
  exact this

/-- **the result half of the refinement**: for a state coupled to the rows, `execute_result` (+ LIMIT) yields exactly
the specification's table — provided the group keys are exact, every group is visible (no D10 group) and no
ARRAY_AGG starts with NULL (D15) -/
theorem finalResultP_refines {O : Oracles} {q : AggStmt} (hwf : StmtWF q) {st : AggState} {rows : List (List Value × Env)}
    (hc : CoupledP O q st rows) (hex : KeysExact (rows.map (·.1))) {t : List (List Value)}
    (hspec : tableOfGroups O q (groups rows) = some t)
    (hvis : ∀ kg ∈ groups rows, groupVisible O q kg.2 = true)
    (hd15 : ∀ kg ∈ groups rows, arrayAggFirstNull O q kg.2 = false) :
    finalResult O q { agg := st } = .ok { columns := q.items.map (·.name), rows := t } := by
  have hs1 := aggSorted_publish hc.sorted
  have hsh1 := shape_publish hc.shape
  rw [tableOfGroups_eq] at hspec
  cases hall : collect ((groups rows).map (perGroup O q)) with
  | none => simp [hall] at hspec
  | some all =>
    simp only [hall, Option.some.injEq] at hspec
    -- groups of the specification, by key
    have hgroup : ∀ k ∈ distinctKeys (rows.map (·.1)), (k, rowsOfKey k rows) ∈ groups rows := by
      intro k hk
      exact List.mem_map.mpr ⟨k, hk, rfl⟩
    have hd15k : ∀ k ∈ rows.map (·.1), arrayAggFirstNull O q (rowsOfKey k rows) = false := by
      intro k hk
      exact hd15 _ (hgroup k ((distinctKeys_mem_iff hex k).mpr hk))
    -- the keys of `group_values` are the distinct keys
    have hkeys : (publishPercentiles st).vals.map (·.1) = distinctKeys (rows.map (·.1)) := by
      apply sorted_ext hs1.vals (distinctKeys_sorted _)
      intro x
      constructor
      · intro hx
        obtain ⟨p, hp, hpx⟩ := List.mem_map.mp hx
        exact (distinctKeys_mem_iff hex x).mpr (by rw [← hpx]; exact hsh1.valsKeys p hp)
      · intro hx
        have hxk : x ∈ rows.map (·.1) := distinctKeys_sub _ x hx
        have hmem := hgroup x hx
        have hv := hvis _ hmem
        simp only [groupVisible, List.any_eq_true] at hv
        obtain ⟨kind, hkind, hce⟩ := hv
        cases hargs : arguments O q kind (rowsOfKey x rows) with
        | none => simp [hargs] at hce
        | some vs =>
          simp only [hargs] at hce
          have hnk : ∀ e c, kind ≠ .groupKey e c := by
            intro e c he; subst he; simp [createsEntry] at hce
          obtain ⟨ra, hra⟩ := collect_some_mem hall _ (List.mem_map.mpr ⟨_, hmem, rfl⟩)
          obtain ⟨r, hr⟩ := perGroup_values hwf hra kind hkind hnk
          obtain ⟨i, hi⟩ := enumFrom_exists (slotKinds q) 0 kind hkind
          obtain ⟨_, vs', hvs', hsome⟩ := coupled_slot hwf hc hxk (hd15k x hxk) hi hr
          rw [hargs] at hvs'
          simp only [Option.some.injEq] at hvs'
          subst hvs'
          rw [hce] at hsome
          -- the cell has a value, so the group is listed
          simp only [readCell] at hsome
          cases hl : gmLookup (publishPercentiles st).vals x i with
          | none => simp [hl] at hsome
          | some v =>
            simp only [gmLookup, Option.bind] at hl
            cases hg : gmGet (publishPercentiles st).vals x with
            | none => simp [hg] at hl
            | some subs =>
              obtain ⟨key, hkm, hke⟩ := gmGet_some_mem hg
              have : key = x := hex key (hsh1.valsKeys _ hkm) x hxk hke
              subst this
              exact List.mem_map.mpr ⟨_, hkm, rfl⟩
    -- every listed group shows the specification's values
    have hviews : Views O q (publishPercentiles st).vals (groups rows) := by
      have := views_of_keys (O := O) (q := q) rows (publishPercentiles st).vals (by
        intro p hp
        obtain ⟨key, subs⟩ := p
        have hk : key ∈ rows.map (·.1) := hsh1.valsKeys _ hp
        refine ⟨?_⟩
        intro i kind r hslot hv
        have := (coupled_slot hwf hc hk (hd15k key hk) hslot hv).1
        simp only [readCell, gmLookup, gmGet_of_mem hs1.vals hp, Option.bind] at this
        exact this)
      rw [hkeys] at this
      exact this
    unfold finalResult
    obtain ⟨cs, hcs⟩ := checkRows_view hviews hall
    rw [aggResult_eq, hcs, resultRows_view hviews [] hall]
    simp only [Outcome.bind, bind, pure]
    rw [← hspec]
    cases q.distinct <;> cases q.limit <;> simp [distinctPass_nil]

theorem finalResult_refines {O : Oracles} {q : AggStmt} (hwf : StmtWF q) {st : AggState} {rows : List (List Value × Env)}
    (hc : Coupled O q st rows) (hex : KeysExact (rows.map (·.1))) {t : List (List Value)}
    (hspec : tableOfGroups O q (groups rows) = some t)
    (hvis : ∀ kg ∈ groups rows, groupVisible O q kg.2 = true)
    (hd15 : ∀ kg ∈ groups rows, arrayAggFirstNull O q kg.2 = false) :
    finalResult O q { agg := st } = .ok { columns := q.items.map (·.name), rows := t } :=
  finalResultP_refines hwf (coupledP_of_coupled hc) hex hspec hvis hd15

/-- **results are repeatable**: `execute_result` (its state change is `publishPercentiles`) keeps the coupling -/
theorem coupledP_publish {O : Oracles} {q : AggStmt} {st : AggState} {rows : List (List Value × Env)}
    (hc : CoupledP O q st rows) : CoupledP O q (publishPercentiles st) rows := by
  refine ⟨aggSorted_publish hc.sorted, ?_, ?_, shape_publish hc.shape⟩
  · intro key i kind hm
    obtain ⟨c, hfold, hsim⟩ := hc.cells key i kind hm
    refine ⟨c, hfold, ?_⟩
    rw [readCell_publish hc.sorted hc.shape.aggsInner]
    cases kind with
    | percentile e p =>
      obtain ⟨hagg, hval, hshape, hstale⟩ := hsim
      refine ⟨hagg, hval, hshape, ?_⟩
      simp only
      -- what is published is either nothing or the value of a non-empty percentile aggregator
      unfold published
      rw [hagg]
      cases ha : c.agg with
      | none =>
        rcases hstale with h1 | ⟨xs, p', h2, _⟩
        · exact Or.inl h1
        · rw [ha] at h2; simp at h2
      | some a =>
        obtain ⟨xs, p', hxs⟩ := hshape a ha
        subst hxs
        simp only
        cases hv : percentileValue xs p' with
        | some v =>
          right
          refine ⟨xs, p', rfl, ?_⟩
          intro he; subst he
          simp [percentileValue, sortValues] at hv
        | none =>
          simp only
          rcases hstale with h1 | ⟨ys, q0, h2, hne⟩
          · exact Or.inl h1
          · right
            rw [ha] at h2
            exact ⟨ys, q0, h2, hne⟩
    | _ =>
      simp only [CellSim] at hsim ⊢
      obtain ⟨he, hp⟩ := hsim
      refine ⟨?_, hp⟩
      rw [he]
      have : published c = c.val := by
        unfold published
        cases ha : c.agg with
        | none => rfl
        | some a => cases a <;> first | rfl | (rw [ha] at hp; simp [isPct] at hp)
      rw [this]
  · intro key i hi
    rw [readCell_publish hc.sorted hc.shape.aggsInner, hc.others key i hi]
    rfl

end Sqlgrep
