import SqlgrepModel.Model.JsonDoc
import SqlgrepModel.Model.Lex
import SqlgrepModel.Model.ParseStmt
import SqlgrepModel.Model.Lower
import SqlgrepModel.Model.Extract
import SqlgrepModel.Model.Reader
import SqlgrepModel.Model.ExecT
import SqlgrepModel.Model.Print
/-
The END-TO-END model: from raw texts and raw file bytes to the lines handed to `Printer::println`.

  definitions text ─ tokenize ─ parseTokens ─ lowerStatement ─ addTables ─┐
  query text       ─ tokenize ─ parseTokens ─ lowerStatement ─────────────┤ setup (`ExecutionEngine::new`, `get_table`)
  file bytes       ─ Reader.lines ─ Extract.extractRow (per line) ────────┤
  joined file      ─ Reader.lines ─ Extract.extractRow (joined table) ────┴─ runBatchT ─ Print.printAll ─▶ lines

Every box is the stage model the stage's own property is proved about and checked against /repo with its own
driver kind; nothing is modelled again here. What this file adds is the GLUE, each piece naming the Rust code it
mirrors:

* `parseText`      `parsing::parse`: `tokenize` → `Parser::parse` → `transform_statement` (three error channels)
* `addTables` / `getTable`   `Tables::add_tables`, `Tables::add_table` (a `HashMap` insert: the last definition of a
                   name wins), `Tables::get`
* `Table.info`     what `ExecutionEngine` reads off a `TableDefinition` (`TableDefinition::new`: name, column names,
                   `fully_qualified_column_names` = `name.column`, built by `columnsMapping` in `Model/Engine.lean`)
* `setup`          `ExecutionEngine::new` + the `get_table` calls of `execute_joined_table` / `JoinedTableData::execute`
                   / `execute_select|aggregate…` (a missing table is `TableNotFound` at the place the code asks for it)
* `fileLines`      `BufRead::lines` + `TableDefinition::extract` on every line the reader yields
* `printCalls`     `ResultRow` → what `OutputPrinter::print` is called with (column names as bytes; the display option
                   `single_result`, forced to `true` for the final print of an aggregate run)

External facts (`Facts`) are the union of the stages' oracle tables, shipped with a case. A fact the run needs and
the case did not ship makes the answer `skip` (never a guess).
-/
namespace Sqlgrep.Pipeline
open Sqlgrep Sqlgrep.Extract

/-! ### stage 1: text → statement (`parsing::parse`) -/

/-- the answer of `parsing::parse(text)` -/
inductive Parsed where
  | stmt (s : LStmt)
  | lexError (loc : Loc) (e : Lex.LexErr)          -- `ParserError` raised by the tokenizer
  | parseError (e : PErr)                          -- `ParserError` raised by the parser
  | convertError (e : CErr)                        -- `ConvertParserTreeError`
  | panic (site : String)
  | fuel                                           -- never (`Props/C14.lean` `parse_never_out_of_fuel`)
  | missing (what : String)                        -- an oracle fact was not shipped
  deriving Repr, Inhabited

/-- `transform_statement` -/
def lowerTree (regexValid : List Char → Bool) (t : POp) : Parsed :=
  match Lower.lowerStatement regexValid t with
  | .ok s => .stmt s
  | .err e => .convertError e
  | .panic site => .panic site

/-- `Parser::new(…, tokens).parse()` then `transform_statement` -/
def parseToks (regexValid : List Char → Bool) (ts : List PTok) : Parsed :=
  match Parse.parseTokens PrecTables.code ts with
  | .tree t => lowerTree regexValid t
  | .error e => .parseError e
  | .fuel => .fuel
  | .panic => .panic "tokens[usize::MAX]"

/-- `parsing::parse` -/
def parseText (lo : Lex.Oracles) (regexValid : List Char → Bool) (text : List Char) : Parsed :=
  match Lex.tokenize lo text with
  | .ok ts => parseToks regexValid ts
  | .error loc e => .lexError loc e
  | .missing w => .missing ("f64::from_str " ++ String.ofList w)

/-! ### stage 2: statements → tables (`Tables`) -/

/-- a `TableDefinition` as the later stages see it: the extraction view and the engine view -/
structure Table where
  name : String
  defn : TableDef
  columns : List String
  deriving Repr, Inhabited

/-- what the engines read off a table: its name and its column names, in definition order -/
def Table.info (t : Table) : TableInfo := { name := t.name, columns := t.columns }

def tableOf : LStmt → Option Table
  | .createTable n d cols => some { name := n, defn := d, columns := cols }
  | _ => none

/-- `Tables::add_tables` on an empty `Tables`: the tables in insertion order, `none` = `false` (not a CREATE TABLE) -/
def addTables : LStmt → Option (List Table)
  | .multiple ss => ss.mapM tableOf
  | s => (tableOf s).map (fun t => [t])

/-- `Tables::get`: `add_table` is `HashMap::insert`, so the LAST definition of a name is the one found -/
def getTable (ts : List Table) (name : String) : Option Table := ts.reverse.find? (fun t => t.name == name)

/-! ### stage 3: bytes → lines → rows -/

/-- what `regex` and `serde_json` say about one line -/
structure LineFacts where
  captures : List (Text × Option (List (Option Text))) := []   -- regex source ↦ `Regex::captures(line)` (group texts)
  splits : List (Text × List Text) := []                       -- regex source ↦ `Regex::split(line)`
  json : Option (Option Json) := none                          -- `serde_json::from_str(line)` (`some none` = an error); `none` = no fact shipped: `JsonDoc.docOfLine` computes it
  deriving Inhabited

/-- all external facts of one run -/
structure Facts where
  classes : List (Char × Lex.CharInfo) := []          -- Unicode classes / lower-casing of non-ASCII characters
  numbers : List (List Char × Lex.FloatAns) := []     -- `f64::from_str` of number texts of the SQL texts (optional: a cross-check of `DecFloat.parseF64`)
  regexValid : List (List Char × Bool) := []          -- `Regex::new(pattern).is_ok()`
  lines : List (Text × LineFacts) := []               -- per input line
  f64 : List (Text × Option Nat) := []                -- `f64::from_str` of texts extraction may convert to REAL (optional: a cross-check of `DecFloat.parseF64N`)
  eval : Sqlgrep.Oracles := {}                        -- the evaluator's tables (casts, `regexp_matches`, `upper`/`lower`)
  reals : List (Nat × Print.Bytes × Print.Bytes) := []  -- REAL bits ↦ `{:.2}` rendering, serde_json rendering
  fs : List (String × List Nat) := []                 -- the files that exist besides the input files: path ↦ content
  lossy : List (List Nat × List Nat) := []            -- `String::from_utf8_lossy` of delivered lines that are not valid UTF-8 (follow mode)
  deriving Inhabited

def lexOracles (F : Facts) : Lex.Oracles :=
  { ext := fun c => (F.classes.lookup c).getD { alpha := false, numeric := false, alnum := false, white := false, lower := [c] }
    fparse := fun t => (F.numbers.lookup t).getD .missing }

/-- every non-ASCII character of the text has its class shipped -/
def classesCover (F : Facts) (text : List Char) : Bool :=
  text.all (fun c => decide (c.toNat < 128) || (F.classes.lookup c).isSome)

def regexValidOf (F : Facts) (p : List Char) : Option Bool := F.regexValid.lookup p

def extractOracles (F : Facts) : Extract.Oracles := Extract.Oracles.withFacts F.f64

def lineOracle (line : Text) (f : LineFacts) : LineOracle :=
  { line := line
    captures := fun re => (f.captures.lookup re).join
    split := fun re => (f.splits.lookup re).getD []
    json := match f.json with
      | some j => j                        -- a shipped fact (cross-checked against the computed document by the driver)
      | none => JsonDoc.docOfLine line }   -- `serde_json::from_str` as computed by `Model/JsonDoc.lean`

/-- every fact `TableDefinition::extract(line)` asks the libraries for has been shipped -/
def factsCover (F : Facts) (d : TableDef) (line : Text) : Bool :=
  match F.lines.lookup line with
  | none => false
  | some f =>
    d.patterns.all (fun p => match p.mode with
      | .captures => (f.captures.lookup p.regex).isSome
      | .split => (f.splits.lookup p.regex).isSome)
    -- `f64::from_str` facts (`F.f64`) are not required: a text without one is converted by `DecFloat.parseF64N`

/-- one item of `BufRead::lines` as the batch loop sees it: unreadable, or the line with `TableDefinition::extract(line)`;
`none` = a fact is missing -/
def mkLine (F : Facts) (d : TableDef) : Except Unit (List Nat) → Option FileLine
  | .error _ => some { readable := false, line := { text := [], row := [] } }
  | .ok l =>
    if factsCover F d l then
      some { readable := true,
             line := { text := l, row := extractRow (extractOracles F) d (lineOracle l ((F.lines.lookup l).getD {})) } }
    else none

/-- a file as the batch loop sees it -/
def fileLines (F : Facts) (d : TableDef) (bytes : List Nat) : Option (List FileLine) :=
  (Reader.lines bytes).mapM (mkLine F d)

/-! ### stage 4: statement + tables → run (`ExecutionEngine::new`, `get_table`, `FileExecutor::execute`) -/

def stmtOf : LStmt → Option (Stmt × String × Option LJoin)
  | .select s f _ j => some (.select s, f, j)
  | .aggregate a f _ j => some (.aggregate a, f, j)
  | _ => none

/-- the joined file named in the statement: `File::open(&join.joined_filename)` (`none` = no such file) -/
def openJoined (F : Facts) (j : LJoin) : Option (List Nat) := F.fs.lookup j.joinedFilename

def joinInfo (j : LJoin) (joined : TableInfo) : JoinInfo :=
  { joined := joined, joinerColumn := j.joinerColumn, joinedColumn := j.joinedColumn, isOuter := j.isOuter }

/-- a statement whose FROM table is not defined, without a join: `execute_select` / `execute_aggregate_update` ask
`tables.get(from)` for every line, so the first line the reader yields is counted and then fails with `TableNotFound`
(an unreadable first line fails with `FailReadFile` before that); with no line at all, or `LIMIT 0`, the table is
never asked for and the run is the run over empty input -/
def runNoTable (O : Oracles) (stmt : Stmt) (fromTable : String) (files : List (List Nat)) : TraceOut :=
  let qy : Query := { stmt := stmt, table := { name := fromTable, columns := [] }, join := none }
  if reachedLimit qy {} then runBatchT O qy none []
  else
    match (files.flatMap Reader.lines).head? with
    | none => runBatchT O qy none []
    | some (.error _) => { out := { error := some .failReadFile } }
    | some (.ok _) => { out := { totalLines := 1, error := some .tableNotFound } }

/-- `FileExecutor::execute` for a lowered statement over the defined tables; `none` = a fact is missing -/
def runStatement (F : Facts) (tables : List Table) (stmt : Stmt) (fromTable : String) (join : Option LJoin)
    (files : List (List Nat)) : Option TraceOut :=
  match getTable tables fromTable, join with
  | none, none => some (runNoTable F.eval stmt fromTable files)
  | none, some _ =>
    -- `execute_joined_table`: `self.get_table(from)?` comes first
    some { out := { error := some .tableNotFound } }
  | some t, none => do
    let fs ← files.mapM (fileLines F t.defn)
    pure (runBatchT F.eval { stmt := stmt, table := t.info, join := none } none fs)
  | some t, some j => do
    let fs ← files.mapM (fileLines F t.defn)
    match getTable tables j.joinedTable with
    | none =>
      -- `JoinedTableData::execute`: `get_table(&join.joined_table)?`, after the joiner column was looked up
      let ji := joinInfo j { name := j.joinedTable, columns := [] }
      let qy : Query := { stmt := stmt, table := t.info, join := some ji }
      pure (runWithIndexT F.eval qy (setupJoin t.info ji (.error .tableNotFound)) fs)
    | some u =>
      let qy : Query := { stmt := stmt, table := t.info, join := some (joinInfo j u.info) }
      match openJoined F j with
      | none => pure (runBatchT F.eval qy none fs)
      | some bytes => do
        let jl ← fileLines F u.defn bytes
        pure (runBatchT F.eval qy (some jl) fs)

/-! ### stage 5: print calls → lines (`OutputPrinter`) -/

def toResultRow (r : RowOut) : Print.ResultRow := { columns := r.columns.map strBytes, rows := r.rows }

/-- the arguments of the `print` calls: `single_result` is the display option, except for the final print of an
aggregate run, which passes `true` -/
def printCalls (single : Bool) (calls : List PrintCall) : List (Print.ResultRow × Bool) :=
  calls.map (fun c => (toResultRow c.result, c.final || single))

def realEntry (F : Facts) (bits : Nat) : Option (Print.Bytes × Print.Bytes) :=
  (F.reals.find? (fun e => e.1 == F64.canon bits)).map (·.2)

def realOracle (F : Facts) : Print.RealOracle :=
  { fixed2 := fun b => ((realEntry F b).map (·.1)).getD [63]
    json := fun b => ((realEntry F b).map (·.2)).getD [63] }

mutual
def realsOf : Value → List Nat
  | .real b => [b]
  | .array _ xs => realsOfList xs
  | _ => []
def realsOfList : List Value → List Nat
  | [] => []
  | x :: xs => realsOf x ++ realsOfList xs
end

/-- the rendering of every REAL that gets printed has been shipped -/
def realsCover (F : Facts) (calls : List PrintCall) : Bool :=
  calls.all (fun c => c.result.rows.all (fun row => (realsOfList row).all (fun b => (realEntry F b).isSome)))

/-! ### the whole run -/

inductive Which where | definitions | query
  deriving Repr, DecidableEq, Inhabited

/-- what an invocation `sqlgrep -d <definitions> -c <query> --format <fmt> <files…>` comes to -/
inductive Answer where
  /-- a text is rejected: tokenizer, parser or conversion error (`p` is not `.stmt`) -/
  | rejected (w : Which) (p : Parsed)
  /-- the definitions are not CREATE TABLE statements (`Tables::add_tables` = false) -/
  | notCreateTable
  /-- the query text is a CREATE TABLE -/
  | notAQuery
  /-- `FileExecutor::execute` returned: `Ok` (`error = none`) or `Err(kind)`, after `totalLines` lines, having printed `lines` -/
  | records (error : Option ErrKind) (totalLines : Nat) (lines : List Print.Bytes)
  | panic (site : String)
  | skip (what : String)
  deriving Repr, Inhabited

/-- the part after both texts are lowered -/
def runLowered (F : Facts) (defs query : LStmt) (fmt : Print.Format) (single : Bool) (files : List (List Nat)) : Answer :=
  match addTables defs with
  | none => .notCreateTable
  | some tables =>
    match stmtOf query with
    | none => .notAQuery
    | some (stmt, fromTable, join) =>
      match runStatement F tables stmt fromTable join files with
      | none => .skip "line facts"
      | some t =>
        if t.out.skipped.isSome then .skip (t.out.skipped.getD "")
        else if t.out.panicked then .panic "engine"
        else if !realsCover F t.calls then .skip "REAL rendering"
        else
          let calls := printCalls single t.calls
          if calls.any (fun c => Print.resultPanics fmt c.1) then .panic "OutputPrinter::print index"
          else .records t.out.error t.out.totalLines ((Print.printAll (realOracle F) fmt true calls).map Print.Line.bytes)

def regexValidFn (F : Facts) : List Char → Bool := fun p => (regexValidOf F p).getD true

mutual
def createPatterns : LStmt → List (List Nat)
  | .createTable _ d _ => d.patterns.map (·.regex)
  | .multiple ss => createPatternsList ss
  | _ => []
def createPatternsList : List LStmt → List (List Nat)
  | [] => []
  | s :: ss => createPatterns s ++ createPatternsList ss
end

/-- **the end-to-end model**: definitions text, query text, output format, display option `single_result`, the bytes
of the input files, and the facts about the outside world, to the answer -/
def runText (F : Facts) (defsText queryText : List Char) (fmt : Print.Format) (single : Bool)
    (files : List (List Nat)) : Answer :=
  if !classesCover F defsText || !classesCover F queryText then .skip "character class"
  else
    match parseText (lexOracles F) (regexValidFn F) defsText with
    | .stmt defs =>
      -- `Regex::new` of every pattern the lowering accepted must have been shipped (the default `true` was not a guess)
      if !(createPatterns defs).all (fun re => ((Utf8.decode re).bind (regexValidOf F)).isSome) then .skip "Regex::new"
      else
        match parseText (lexOracles F) (regexValidFn F) queryText with
        | .stmt query => runLowered F defs query fmt single files
        | .missing w => .skip w
        | .panic site => .panic site
        | .fuel => .panic "fuel"
        | p => .rejected .query p
    | .missing w => .skip w
    | .panic site => .panic site
    | .fuel => .panic "fuel"
    | p => .rejected .definitions p

end Sqlgrep.Pipeline
