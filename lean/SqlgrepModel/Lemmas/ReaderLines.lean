import SqlgrepModel.Lemmas.ReaderSpec
/-
`BufRead::lines` (`Sqlgrep.Reader.lines`) against the split at `\n`; the file loops of `FileExecutor`.
-/
namespace Sqlgrep
namespace Reader

/-- put `p` in front of the first piece -/
def prependHead (p : List Nat) : List (List Nat) → List (List Nat)
  | [] => [p]
  | l :: ls => (p ++ l) :: ls

/-- what `lines` must yield for the pieces of a content: every piece but the last is a newline-terminated
line; the last piece is a line only if it is non-empty -/
def assemble : List (List Nat) → List (Except Unit (List Nat))
  | [] => []
  | [last] => if last = [] then [] else [finishLine last false]
  | l :: l' :: rest => finishLine l true :: assemble (l' :: rest)

/-- specification of `lines` -/
def specLines (bs : List Nat) : List (Except Unit (List Nat)) := assemble (splitNl bs)

/-- a file that is empty or ends with `\n` -/
def NlTerminated (f : List Nat) : Prop := f = [] ∨ f.getLast? = some nl

instance (f : List Nat) : Decidable (NlTerminated f) := by unfold NlTerminated; exact inferInstance

theorem linesAux_spec (cur bs : List Nat) :
    linesAux cur bs = assemble (prependHead cur.reverse (splitNl bs)) := by
  induction bs generalizing cur with
  | nil =>
    simp only [linesAux, splitNl, prependHead, assemble, List.append_nil, List.reverse_eq_nil_iff]
  | cons b bs ih =>
    unfold linesAux
    cases hs : splitNl bs with
    | nil => exact absurd hs (splitNl_ne_nil bs)
    | cons x xs =>
      split
      · rename_i hb
        subst hb
        rw [ih, splitNl_cons_nl, hs]
        simp [prependHead, assemble]
      · rename_i hb
        rw [ih, splitNl_cons_ne b bs hb, hs]
        simp [prependHead, consHead]

theorem lines_eq_spec (bs : List Nat) : lines bs = specLines bs := by
  unfold lines specLines
  rw [linesAux_spec]
  cases hs : splitNl bs with
  | nil => exact absurd hs (splitNl_ne_nil bs)
  | cons x xs => simp [prependHead]

theorem linesAux_cons (cur : List Nat) (b : Nat) (bs : List Nat) :
    linesAux cur (b :: bs) =
      if b = nl then finishLine cur.reverse true :: linesAux [] bs else linesAux (b :: cur) bs := by
  simp only [linesAux]

theorem linesAux_append_nl (cur g f2 : List Nat) :
    linesAux cur (g ++ nl :: f2) = linesAux cur (g ++ [nl]) ++ linesAux [] f2 := by
  induction g generalizing cur with
  | nil => simp [linesAux]
  | cons b g ih =>
    simp only [List.cons_append]
    rw [linesAux_cons cur b (g ++ nl :: f2), linesAux_cons cur b (g ++ [nl])]
    split
    · simp [ih]
    · exact ih _

theorem lines_append (f1 f2 : List Nat) (h : NlTerminated f1) : lines (f1 ++ f2) = lines f1 ++ lines f2 := by
  rcases h with h | h
  · subst h; simp [lines, linesAux]
  · obtain ⟨g, hg⟩ := List.getLast?_eq_some_iff.1 h
    subst hg
    unfold lines
    rw [List.append_assoc, List.singleton_append, linesAux_append_nl]

theorem flatMap_lines_eq (files : List (List Nat)) (last : List Nat) (h : ∀ f ∈ files, NlTerminated f) :
    (files ++ [last]).flatMap lines = lines (files ++ [last]).flatten := by
  induction files with
  | nil => simp
  | cons f fs ih =>
    have h1 := h f (by simp)
    have h2 : ∀ f' ∈ fs, NlTerminated f' := fun f' hf' => h f' (by simp [hf'])
    simp only [List.cons_append, List.flatMap_cons, List.flatten_cons]
    rw [ih h2, lines_append _ _ h1]

/-! ### the file loops -/

theorem feed_append {σ ε : Type} (step : σ → List Nat → Except ε σ) (s : σ) (a b : List (Except Unit (List Nat))) :
    feed step s (a ++ b) = (match feed step s a with
      | (s', .ok) => feed step s' b
      | r => r) := by
  induction a generalizing s with
  | nil => simp [feed]
  | cons x a ih =>
    cases x with
    | error e => simp [feed]
    | ok l =>
      simp only [List.cons_append, feed]
      cases hst : step s l with
      | error e => simp
      | ok s' => simp only []; exact ih s'

/-- the double loop is one loop over the lines of all files in order -/
theorem execFiles_eq_feed {σ ε : Type} (step : σ → List Nat → Except ε σ) (s : σ) (files : List (List Nat)) :
    execFiles step s files = feed step s (files.flatMap lines) := by
  induction files generalizing s with
  | nil => simp [execFiles, feed]
  | cons f fs ih =>
    simp only [execFiles, List.flatMap_cons]
    rw [feed_append]
    cases hf : feed step s (lines f) with
    | mk s' st =>
      cases st with
      | ok => simp only []; exact ih s'
      | readError => simp
      | engineError e => simp

/-- the lines before the first unreadable one -/
def okPrefix : List (Except Unit (List Nat)) → List (List Nat)
  | [] => []
  | .error _ :: _ => []
  | .ok l :: rest => l :: okPrefix rest

def allOk : List (Except Unit (List Nat)) → Bool
  | [] => true
  | .error _ :: _ => false
  | .ok _ :: rest => allOk rest

theorem feed_record (seen : List (List Nat)) (items : List (Except Unit (List Nat))) :
    feed record seen items = (seen ++ okPrefix items, if allOk items then (Status.ok : Status Empty) else Status.readError) := by
  induction items generalizing seen with
  | nil => simp [feed, okPrefix, allOk]
  | cons x items ih =>
    cases x with
    | error e => simp [feed, okPrefix, allOk]
    | ok l =>
      simp only [feed, record, okPrefix, allOk]
      rw [ih]
      simp only [List.append_assoc, List.singleton_append]
      rfl

theorem allOk_iff (items : List (Except Unit (List Nat))) :
    allOk items = true ↔ items = (okPrefix items).map .ok := by
  induction items with
  | nil => simp [allOk, okPrefix]
  | cons x items ih =>
    cases x with
    | error e => simp [allOk, okPrefix]
    | ok l => simp [allOk, okPrefix, ih]

theorem allOk_false_iff (items : List (Except Unit (List Nat))) :
    allOk items = false ↔ .error () ∈ items := by
  induction items with
  | nil => simp [allOk]
  | cons x items ih =>
    cases x with
    | error e => simp [allOk]
    | ok l => simp [allOk, ih]

/-- with any engine: a run that ends `Ok` has seen only readable lines, all of them -/
theorem feed_ok_all {σ ε : Type} (step : σ → List Nat → Except ε σ) (s : σ) (items : List (Except Unit (List Nat)))
    (h : (feed step s items).2 = .ok) : allOk items = true := by
  induction items generalizing s with
  | nil => rfl
  | cons x items ih =>
    cases x with
    | error e => simp [feed] at h
    | ok l =>
      simp only [feed] at h
      cases hst : step s l with
      | error e => rw [hst] at h; simp at h
      | ok s' => rw [hst] at h; simp only [allOk]; exact ih s' h

end Reader
end Sqlgrep
