import SqlgrepModel.Lemmas.ClimbRules
/-
States built from printed tokens, the well-formedness of a precedence table, "stopping" states, and the left-spine
decomposition of a reference expression (`unspine` / `plug` / `flat`) used by the precedence-climbing proof.
-/
namespace Sqlgrep.Spec
open Sqlgrep.Parse

/-! ### states made of printed tokens (all at the default location) -/

def push (t : Tok) (s : PSt) : PSt := ⟨⟨default, t⟩, s.cur :: s.rest⟩
def pushAll (ts : List Tok) (s : PSt) : PSt := ts.foldr push s

@[simp] theorem pushAll_nil (s : PSt) : pushAll [] s = s := rfl
@[simp] theorem pushAll_cons (t : Tok) (ts : List Tok) (s : PSt) : pushAll (t :: ts) s = push t (pushAll ts s) := rfl
@[simp] theorem pushAll_append (a b : List Tok) (s : PSt) : pushAll (a ++ b) s = pushAll a (pushAll b s) := by
  simp [pushAll, List.foldr_append]
@[simp] theorem next_push (t : Tok) (s : PSt) : next (push t s) = .ok () s := rfl
@[simp] theorem push_tok (t : Tok) (s : PSt) : (push t s).cur.tok = t := rfl
@[simp] theorem push_loc (t : Tok) (s : PSt) : (push t s).cur.loc = default := rfl

theorem pushAll_loc (ts : List Tok) (s : PSt) (h : s.cur.loc = default) : (pushAll ts s).cur.loc = default := by
  cases ts with
  | nil => exact h
  | cons t ts => rfl

/-! ### well-formed precedence tables -/

/-- precedence of the qualified-name dot -/
def dotPrec (T : PrecTables) : Int := tokPrec T (.op (.single '.'))

/-- tokens that close or separate sub-expressions: never operators -/
def delims : List Tok := [.rp, .comma, .rsq, .kw .when, .kw .then, .kw .else, .kw .end]

/-- What the climbing proof needs from a table: precedences are non-negative; the qualified-name dot is defined and
binds tighter than every other operator and at least as tight as the operand loops of the prefix operators, which the
code hard-wires at 4 (NOT) and 8 (unary operator); the keyword / bracket operators of `get_token_precedence` are
defined; closing delimiters and the CASE keywords are not operators; unary minus is defined. -/
def _root_.Sqlgrep.PrecTables.WF (T : PrecTables) : Prop :=
  (lookupOp T.binary (.single '.')).isSome ∧
  (∀ e ∈ T.binary, 0 ≤ e.2 ∧ (e.1 ≠ .single '.' → e.2 < dotPrec T)) ∧
  (∀ e ∈ T.other, 0 ≤ e.2 ∧ e.2 < dotPrec T) ∧
  (∀ t ∈ [Tok.kw .is, .kw .isNot, .kw .and, .kw .or, .kw .in, .kw .notIn, .lsq, .dcolon], (lookupTok T.other t).isSome) ∧
  (∀ t ∈ delims, lookupTok T.other t = none) ∧
  8 ≤ dotPrec T ∧
  Operator.single '-' ∈ T.unary

instance (T : PrecTables) : Decidable T.WF := by unfold PrecTables.WF; infer_instance

theorem code_wf : PrecTables.code.WF := by decide


theorem lookupOp_mem {l : List (Operator × Int)} {o : Operator} {p : Int} (h : lookupOp l o = some p) : (o, p) ∈ l := by
  unfold lookupOp at h
  cases hf : l.find? (fun x => x.1 == o) with
  | none => rw [hf] at h; cases h
  | some e =>
    rw [hf] at h
    have hm := List.mem_of_find?_eq_some hf
    have he := List.find?_some hf
    simp only [Option.map_some, Option.some.injEq] at h
    have : e = (o, p) := by
      obtain ⟨a, b⟩ := e
      simp only [beq_iff_eq] at he
      simp only at h
      subst he; subst h; rfl
    rw [← this]; exact hm

theorem lookupTok_mem {l : List (Tok × Int)} {t : Tok} {p : Int} (h : lookupTok l t = some p) : (t, p) ∈ l := by
  unfold lookupTok at h
  cases hf : l.find? (fun x => x.1 == t) with
  | none => rw [hf] at h; cases h
  | some e =>
    rw [hf] at h
    have hm := List.mem_of_find?_eq_some hf
    have he := List.find?_some hf
    simp only [Option.map_some, Option.some.injEq] at h
    have : e = (t, p) := by
      obtain ⟨a, b⟩ := e
      simp only [beq_iff_eq] at he
      simp only at h
      subst he; subst h; rfl
    rw [← this]; exact hm

/-- tokens that `get_token_precedence` answers for: every token except an operator outside the binary table -/
def Defined (T : PrecTables) (t : Tok) : Prop := ∀ o, t = .op o → (lookupOp T.binary o).isSome

theorem tokenPrecedence_defined {T : PrecTables} {s : PSt} (h : Defined T s.cur.tok) :
    tokenPrecedence T s = .ok (tokPrec T s.cur.tok) s := by
  unfold tokenPrecedence tokPrec
  cases ht : s.cur.tok with
  | op o =>
    have := h o ht
    cases hl : lookupOp T.binary o with
    | none => rw [hl] at this; cases this
    | some p => simp [hl]
  | _ => simp

theorem tokPrec_op_range {T : PrecTables} (hT : T.WF) {o : Operator} (hd : (lookupOp T.binary o).isSome)
    (hne : o ≠ .single '.') : 0 ≤ tokPrec T (.op o) ∧ tokPrec T (.op o) < dotPrec T := by
  cases hl : lookupOp T.binary o with
  | none => rw [hl] at hd; cases hd
  | some p =>
    have := hT.2.1 _ (lookupOp_mem hl)
    simp only [tokPrec, hl, Option.getD_some]
    exact ⟨this.1, this.2 hne⟩

theorem tokPrec_other_range {T : PrecTables} (hT : T.WF) {t : Tok} (hop : ∀ o, t ≠ .op o)
    (hd : (lookupTok T.other t).isSome) : 0 ≤ tokPrec T t ∧ tokPrec T t < dotPrec T := by
  cases hl : lookupTok T.other t with
  | none => rw [hl] at hd; cases hd
  | some p =>
    have := hT.2.2.1 _ (lookupTok_mem hl)
    have ht : tokPrec T t = p := by
      unfold tokPrec
      cases t <;> simp_all
    rw [ht]; exact this

theorem dotPrec_ge8 {T : PrecTables} (hT : T.WF) : 8 ≤ dotPrec T := hT.2.2.2.2.2.1

/-! ### stopping states -/

/-- the state begins with a token that ends an operand loop running at level `m`: it is not `(` (which would turn a
preceding identifier into a call), the parser answers a precedence for it, and that precedence is below `m` -/
def Stops (T : PrecTables) (m : Int) (s : PSt) : Prop :=
  s.cur.tok ≠ .lp ∧ ∃ tp, tokenPrecedence T s = .ok tp s ∧ tp < m

theorem Stops.mono {T : PrecTables} {m m' : Int} {s : PSt} (h : Stops T m s) (hle : m ≤ m') : Stops T m' s := by
  obtain ⟨h1, tp, h2, h3⟩ := h
  exact ⟨h1, tp, h2, by omega⟩

theorem Stops.of_tok {T : PrecTables} {m : Int} {s : PSt} (hlp : s.cur.tok ≠ .lp) (hd : Defined T s.cur.tok)
    (hlt : tokPrec T s.cur.tok < m) : Stops T m s :=
  ⟨hlp, _, tokenPrecedence_defined hd, hlt⟩

theorem delims_plain {t : Tok} (h : t ∈ delims) : t ≠ .lp ∧ ∀ o, t ≠ .op o := by
  simp only [delims, List.mem_cons, List.mem_nil_iff, or_false] at h
  rcases h with h | h | h | h | h | h | h <;> subst h <;> simp

theorem tokPrec_delim {T : PrecTables} (hT : T.WF) {t : Tok} (h : t ∈ delims) : tokPrec T t = -1 := by
  have hl := hT.2.2.2.2.1 t h
  have hop := (delims_plain h).2
  unfold tokPrec
  cases t with
  | op o => exact absurd rfl (hop o)
  | _ => simp [hl]

/-- a closing delimiter stops every loop that runs at a non-negative level -/
theorem Stops.delim {T : PrecTables} (hT : T.WF) {m : Int} (hm : 0 ≤ m) {t : Tok} (h : t ∈ delims)
    (s : PSt) : Stops T m (push t s) := by
  have hp := tokPrec_delim hT h
  refine Stops.of_tok ?_ ?_ ?_
  · simpa using (delims_plain h).1
  · intro o ho; exact absurd ho (by simpa using (delims_plain h).2 o)
  · simp only [push_tok, hp]; omega

/-! ### sizes -/

namespace RExpr
mutual
def size : RExpr → Nat
  | .lit _ => 1
  | .col _ _ => 1
  | .paren e => size e + 1
  | .bin _ l r => size l + size r + 1
  | .not e => size e + 1
  | .neg e => size e + 1
  | .index a i => size a + size i + 1
  | .cast e _ => size e + 1
  | .inList _ e v vs => size e + size v + sizes vs + 1
  | .call _ args => sizes args + 1
  | .star => 1
  | .countDistinct _ a as => size a + sizes as + 1
  | .array _ args => sizes args + 1
  | .extract _ e => size e + 1
  | .tuple a b more => size a + size b + sizes more + 1
  | .case c r more els => size c + size r + sizeClauses more + size els + 1
def sizes : List RExpr → Nat
  | [] => 0
  | e :: es => size e + sizes es + 1
def sizeClauses : List (RExpr × RExpr) → Nat
  | [] => 0
  | (c, r) :: rest => size c + size r + sizeClauses rest + 1
end

theorem size_pos : ∀ e : RExpr, 0 < size e
  | .lit _ | .col _ _ | .paren _ | .bin _ _ _ | .not _ | .neg _ | .index _ _ | .cast _ _ | .inList _ _ _ _ | .call _ _
  | .star | .countDistinct _ _ _ | .array _ _ | .extract _ _ | .tuple _ _ _ | .case _ _ _ _ => by
    simp [size]

theorem size_lt_sizes {x : RExpr} : ∀ {es : List RExpr}, x ∈ es → size x < sizes es
  | e :: es, h => by
    simp only [List.mem_cons] at h
    simp only [sizes]
    rcases h with h | h
    · subst h; omega
    · have := size_lt_sizes h; omega
theorem size_lt_sizeClauses {p : RExpr × RExpr} : ∀ {cs : List (RExpr × RExpr)}, p ∈ cs →
    size p.1 < sizeClauses cs ∧ size p.2 < sizeClauses cs
  | (c, r) :: cs, h => by
    simp only [List.mem_cons] at h
    simp only [sizeClauses]
    rcases h with h | h
    · subst h; exact ⟨by simp only; omega, by simp only; omega⟩
    · have := size_lt_sizeClauses h; omega
end RExpr

/-! ### the left spine -/

/-- one step along the left spine of an expression: what is applied to the expression built so far -/
inductive Sp where
  | bin (o : BOp) (r : RExpr)
  | idx (i : RExpr)
  | cast (t : VType)
  | inl (n : Bool) (v : RExpr) (vs : List RExpr)

namespace Sp
def tok : Sp → Tok
  | .bin o _ => o.tok
  | .idx _ => .lsq
  | .cast _ => .dcolon
  | .inl n _ _ => RExpr.inTok n
def lvl (T : PrecTables) (q : Sp) : Int := tokPrec T q.tok
def flat (T : PrecTables) : Sp → List Tok
  | .bin o r => o.tok :: RExpr.pr T (tokPrec T o.tok + 1) r
  | .idx i => .lsq :: (RExpr.pr T 0 i ++ [.rsq])
  | .cast t => [.dcolon, .ident (castName t)]
  | .inl n v vs => RExpr.inTok n :: .lp :: (RExpr.pr T 0 v ++ RExpr.prTail T vs ++ [.rp])
def plug (acc : RExpr) : Sp → RExpr
  | .bin o r => .bin o acc r
  | .idx i => .index acc i
  | .cast t => .cast acc t
  | .inl n v vs => .inList n acc v vs
end Sp

def flat (T : PrecTables) : List Sp → List Tok
  | [] => []
  | q :: ps => q.flat T ++ flat T ps

theorem flat_append (T : PrecTables) (a b : List Sp) : flat T (a ++ b) = flat T a ++ flat T b := by
  induction a with
  | nil => rfl
  | cons q ps ih => simp [flat, ih]

def plug (h : RExpr) (ps : List Sp) : RExpr := ps.foldl Sp.plug h

/-- left-spine decomposition of `e` in a context of level `m`: the head (an operand the loop starts from) and the
operator applications the loop at level `m` performs on it -/
def unspine (T : PrecTables) (m : Int) : RExpr → RExpr × List Sp
  | .bin o l r =>
    if tokPrec T o.tok < m then (.bin o l r, [])
    else ((unspine T (tokPrec T o.tok) l).1, (unspine T (tokPrec T o.tok) l).2 ++ [.bin o r])
  | .index a i =>
    if tokPrec T .lsq < m then (.index a i, [])
    else ((unspine T (tokPrec T .lsq) a).1, (unspine T (tokPrec T .lsq) a).2 ++ [.idx i])
  | .cast e t =>
    if tokPrec T .dcolon < m then (.cast e t, [])
    else ((unspine T (tokPrec T .dcolon) e).1, (unspine T (tokPrec T .dcolon) e).2 ++ [.cast t])
  | .inList n e v vs =>
    if tokPrec T (RExpr.inTok n) < m then (.inList n e v vs, [])
    else ((unspine T (tokPrec T (RExpr.inTok n)) e).1, (unspine T (tokPrec T (RExpr.inTok n)) e).2 ++ [.inl n v vs])
  | e => (e, [])

/-- the context level the head of a spine is printed in -/
def headCtx (T : PrecTables) (m : Int) : List Sp → Int
  | [] => m
  | q :: _ => q.lvl T

theorem headCtx_snoc (T : PrecTables) (m : Int) (ps : List Sp) (q : Sp) :
    headCtx T m (ps ++ [q]) = headCtx T (q.lvl T) ps := by
  cases ps <;> rfl

theorem plug_unspine (T : PrecTables) : ∀ (m : Int) (e : RExpr), plug (unspine T m e).1 (unspine T m e).2 = e
  | m, .bin o l r => by
    unfold unspine; split
    · rfl
    · simp only [plug, List.foldl_append, List.foldl_cons, List.foldl_nil]
      have := plug_unspine T (tokPrec T o.tok) l; unfold plug at this; rw [this]; rfl
  | m, .index a i => by
    unfold unspine; split
    · rfl
    · simp only [plug, List.foldl_append, List.foldl_cons, List.foldl_nil]
      have := plug_unspine T (tokPrec T .lsq) a; unfold plug at this; rw [this]; rfl
  | m, .cast e t => by
    unfold unspine; split
    · rfl
    · simp only [plug, List.foldl_append, List.foldl_cons, List.foldl_nil]
      have := plug_unspine T (tokPrec T .dcolon) e; unfold plug at this; rw [this]; rfl
  | m, .inList n e v vs => by
    unfold unspine; split
    · rfl
    · simp only [plug, List.foldl_append, List.foldl_cons, List.foldl_nil]
      have := plug_unspine T (tokPrec T (RExpr.inTok n)) e; unfold plug at this; rw [this]; rfl
  | _, .lit _ => rfl
  | _, .col _ _ => rfl
  | _, .paren _ => rfl
  | _, .not _ => rfl
  | _, .neg _ => rfl
  | _, .call _ _ => rfl
  | _, .star => rfl
  | _, .countDistinct _ _ _ => rfl
  | _, .array _ _ => rfl
  | _, .extract _ _ => rfl
  | _, .tuple _ _ _ => rfl
  | _, .case _ _ _ _ => rfl

/-- the printed form splits into the head, printed in the context of the first spine step, and the steps -/
theorem pr_unspine (T : PrecTables) : ∀ (m : Int) (e : RExpr),
    RExpr.pr T m e = RExpr.pr T (headCtx T m (unspine T m e).2) (unspine T m e).1 ++ flat T (unspine T m e).2
  | m, .bin o l r => by
    unfold unspine; split
    · simp [headCtx, flat]
    · rename_i h
      simp only [headCtx_snoc, flat_append, flat, Sp.flat, Sp.lvl, Sp.tok, List.append_nil]
      rw [RExpr.pr]
      simp only [h, decide_false, RExpr.wrap, Bool.false_eq_true, if_false]
      rw [pr_unspine T (tokPrec T o.tok) l]
      simp
  | m, .index a i => by
    unfold unspine; split
    · simp [headCtx, flat]
    · rename_i h
      simp only [headCtx_snoc, flat_append, flat, Sp.flat, Sp.lvl, Sp.tok, List.append_nil]
      rw [RExpr.pr]
      simp only [h, decide_false, RExpr.wrap, Bool.false_eq_true, if_false]
      rw [pr_unspine T (tokPrec T .lsq) a]
      simp
  | m, .cast e t => by
    unfold unspine; split
    · simp [headCtx, flat]
    · rename_i h
      simp only [headCtx_snoc, flat_append, flat, Sp.flat, Sp.lvl, Sp.tok, List.append_nil]
      rw [RExpr.pr]
      simp only [h, decide_false, RExpr.wrap, Bool.false_eq_true, if_false]
      rw [pr_unspine T (tokPrec T .dcolon) e]
      simp
  | m, .inList n e v vs => by
    unfold unspine; split
    · simp [headCtx, flat]
    · rename_i h
      simp only [headCtx_snoc, flat_append, flat, Sp.flat, Sp.lvl, Sp.tok, List.append_nil]
      rw [RExpr.pr]
      simp only [h, decide_false, RExpr.wrap, Bool.false_eq_true, if_false]
      rw [pr_unspine T (tokPrec T (RExpr.inTok n)) e]
      simp
  | _, .lit _ => by simp [unspine, headCtx, flat]
  | _, .col _ _ => by simp [unspine, headCtx, flat]
  | _, .paren _ => by simp [unspine, headCtx, flat]
  | _, .not _ => by simp [unspine, headCtx, flat]
  | _, .neg _ => by simp [unspine, headCtx, flat]
  | _, .call _ _ => by simp [unspine, headCtx, flat]
  | _, .star => by simp [unspine, headCtx, flat]
  | _, .countDistinct _ _ _ => by simp [unspine, headCtx, flat]
  | _, .array _ _ => by simp [unspine, headCtx, flat]
  | _, .extract _ _ => by simp [unspine, headCtx, flat]
  | _, .tuple _ _ _ => by simp [unspine, headCtx, flat]
  | _, .case _ _ _ _ => by simp [unspine, headCtx, flat]


/-! ### invariants of the decomposition -/

/-- every step binds at least as tight as the loop level and no later step binds tighter than an earlier one -/
def SpineOK (T : PrecTables) (m : Int) : List Sp → Prop
  | [] => True
  | q :: ps => m ≤ q.lvl T ∧ (∀ q' ∈ ps, q'.lvl T ≤ q.lvl T) ∧ SpineOK T m ps

theorem spine_snoc {T : PrecTables} {m p : Int} (ps : List Sp) (q : Sp)
    (h : SpineOK T p ps) (hmp : m ≤ p) (hp : q.lvl T = p) : SpineOK T m (ps ++ [q]) := by
  induction ps with
  | nil => simp [SpineOK, hp, hmp]
  | cons q' qs ih =>
    obtain ⟨h1, h2, h3⟩ := h
    refine ⟨by omega, ?_, ih h3⟩
    intro x hx
    rcases List.mem_append.mp hx with hx | hx
    · exact h2 x hx
    · have := List.mem_singleton.mp hx; subst this; omega

theorem unspine_ok (T : PrecTables) : ∀ (m : Int) (e : RExpr), SpineOK T m (unspine T m e).2
  | m, .bin o l r => by
    unfold unspine; split
    · simp [SpineOK]
    · exact spine_snoc _ _ (unspine_ok T _ l) (by omega) rfl
  | m, .index a i => by
    unfold unspine; split
    · simp [SpineOK]
    · exact spine_snoc _ _ (unspine_ok T _ a) (by omega) rfl
  | m, .cast e t => by
    unfold unspine; split
    · simp [SpineOK]
    · exact spine_snoc _ _ (unspine_ok T _ e) (by omega) rfl
  | m, .inList n e v vs => by
    unfold unspine; split
    · simp [SpineOK]
    · exact spine_snoc _ _ (unspine_ok T _ e) (by omega) rfl
  | _, .lit _ => by simp [unspine, SpineOK]
  | _, .col _ _ => by simp [unspine, SpineOK]
  | _, .paren _ => by simp [unspine, SpineOK]
  | _, .not _ => by simp [unspine, SpineOK]
  | _, .neg _ => by simp [unspine, SpineOK]
  | _, .call _ _ => by simp [unspine, SpineOK]
  | _, .star => by simp [unspine, SpineOK]
  | _, .countDistinct _ _ _ => by simp [unspine, SpineOK]
  | _, .array _ _ => by simp [unspine, SpineOK]
  | _, .extract _ _ => by simp [unspine, SpineOK]
  | _, .tuple _ _ _ => by simp [unspine, SpineOK]
  | _, .case _ _ _ _ => by simp [unspine, SpineOK]

/-- the expressions inside a spine step are smaller than `n` -/
def Sp.Smaller (n : Nat) : Sp → Prop
  | .bin _ r => r.size < n
  | .idx i => i.size < n
  | .cast _ => True
  | .inl _ v vs => v.size < n ∧ RExpr.sizes vs < n

theorem Sp.Smaller.mono {n n' : Nat} {q : Sp} (h : q.Smaller n) (hle : n ≤ n') : q.Smaller n' := by
  cases q <;> simp only [Sp.Smaller] at * <;> omega

theorem unspine_sizes (T : PrecTables) : ∀ (m : Int) (e : RExpr),
    (unspine T m e).1.size ≤ e.size ∧ ∀ q ∈ (unspine T m e).2, q.Smaller e.size
  | m, .bin o l r => by
    unfold unspine; split
    · simp
    · obtain ⟨h1, h2⟩ := unspine_sizes T (tokPrec T o.tok) l
      refine ⟨by simp only [RExpr.size]; omega, ?_⟩
      intro q hq
      simp only [List.mem_append, List.mem_singleton] at hq
      rcases hq with hq | hq
      · exact (h2 q hq).mono (by simp only [RExpr.size]; omega)
      · subst hq; simp only [Sp.Smaller, RExpr.size]; omega
  | m, .index a i => by
    unfold unspine; split
    · simp
    · obtain ⟨h1, h2⟩ := unspine_sizes T (tokPrec T .lsq) a
      refine ⟨by simp only [RExpr.size]; omega, ?_⟩
      intro q hq
      simp only [List.mem_append, List.mem_singleton] at hq
      rcases hq with hq | hq
      · exact (h2 q hq).mono (by simp only [RExpr.size]; omega)
      · subst hq; simp only [Sp.Smaller, RExpr.size]; omega
  | m, .cast e t => by
    unfold unspine; split
    · simp
    · obtain ⟨h1, h2⟩ := unspine_sizes T (tokPrec T .dcolon) e
      refine ⟨by simp only [RExpr.size]; omega, ?_⟩
      intro q hq
      simp only [List.mem_append, List.mem_singleton] at hq
      rcases hq with hq | hq
      · exact (h2 q hq).mono (by simp only [RExpr.size]; omega)
      · subst hq; simp only [Sp.Smaller]
  | m, .inList n e v vs => by
    unfold unspine; split
    · simp
    · obtain ⟨h1, h2⟩ := unspine_sizes T (tokPrec T (RExpr.inTok n)) e
      refine ⟨by simp only [RExpr.size]; omega, ?_⟩
      intro q hq
      simp only [List.mem_append, List.mem_singleton] at hq
      rcases hq with hq | hq
      · exact (h2 q hq).mono (by simp only [RExpr.size]; omega)
      · subst hq; simp only [Sp.Smaller, RExpr.size]; omega
  | _, .lit _ => by simp [unspine]
  | _, .col _ _ => by simp [unspine]
  | _, .paren _ => by simp [unspine]
  | _, .not _ => by simp [unspine]
  | _, .neg _ => by simp [unspine]
  | _, .call _ _ => by simp [unspine]
  | _, .star => by simp [unspine]
  | _, .countDistinct _ _ _ => by simp [unspine]
  | _, .array _ _ => by simp [unspine]
  | _, .extract _ _ => by simp [unspine]
  | _, .tuple _ _ _ => by simp [unspine]
  | _, .case _ _ _ _ => by simp [unspine]

namespace RExpr
/-- nodes the operand loop builds (as opposed to what `parse_unary_operator` returns) -/
def isSpine : RExpr → Bool
  | .bin _ _ _ | .index _ _ | .cast _ _ | .inList _ _ _ _ => true
  | _ => false
end RExpr

/-- the head of an unparenthesised loop-built node is a proper sub-expression -/
theorem unspine_head_lt (T : PrecTables) (m : Int) (e : RExpr) (hs : e.isSpine = true)
    (hnp : e.needsParen T m = false) : (unspine T m e).1.size < e.size := by
  cases e with
  | bin o l r =>
    simp only [RExpr.needsParen, RExpr.level, decide_eq_false_iff_not] at hnp
    unfold unspine; simp only [hnp, if_false, RExpr.size]
    have := (unspine_sizes T (tokPrec T o.tok) l).1; omega
  | index a i =>
    simp only [RExpr.needsParen, RExpr.level, decide_eq_false_iff_not] at hnp
    unfold unspine; simp only [hnp, if_false, RExpr.size]
    have := (unspine_sizes T (tokPrec T .lsq) a).1; omega
  | cast e t =>
    simp only [RExpr.needsParen, RExpr.level, decide_eq_false_iff_not] at hnp
    unfold unspine; simp only [hnp, if_false, RExpr.size]
    have := (unspine_sizes T (tokPrec T .dcolon) e).1; omega
  | inList n e v vs =>
    simp only [RExpr.needsParen, RExpr.level, decide_eq_false_iff_not] at hnp
    unfold unspine; simp only [hnp, if_false, RExpr.size]
    have := (unspine_sizes T (tokPrec T (RExpr.inTok n)) e).1; omega
  | _ => simp [RExpr.isSpine] at hs

/-- a loop-built head is one that the printer parenthesises in its context -/
theorem unspine_head (T : PrecTables) : ∀ (m : Int) (e : RExpr), (unspine T m e).1.isSpine = true →
    (unspine T m e).1.needsParen T (headCtx T m (unspine T m e).2) = true
  | m, .bin o l r => by
    unfold unspine; split
    · rename_i h; intro _; simp [headCtx, RExpr.needsParen, RExpr.level, h]
    · intro hs; simp only [headCtx_snoc]; exact unspine_head T _ l hs
  | m, .index a i => by
    unfold unspine; split
    · rename_i h; intro _; simp [headCtx, RExpr.needsParen, RExpr.level, h]
    · intro hs; simp only [headCtx_snoc]; exact unspine_head T _ a hs
  | m, .cast e t => by
    unfold unspine; split
    · rename_i h; intro _; simp [headCtx, RExpr.needsParen, RExpr.level, h]
    · intro hs; simp only [headCtx_snoc]; exact unspine_head T _ e hs
  | m, .inList n e v vs => by
    unfold unspine; split
    · rename_i h; intro _; simp [headCtx, RExpr.needsParen, RExpr.level, h]
    · intro hs; simp only [headCtx_snoc]; exact unspine_head T _ e hs
  | _, .lit _ => by simp [unspine, RExpr.isSpine]
  | _, .col _ _ => by simp [unspine, RExpr.isSpine]
  | _, .paren _ => by simp [unspine, RExpr.isSpine]
  | _, .not _ => by simp [unspine, RExpr.isSpine]
  | _, .neg _ => by simp [unspine, RExpr.isSpine]
  | _, .call _ _ => by simp [unspine, RExpr.isSpine]
  | _, .star => by simp [unspine, RExpr.isSpine]
  | _, .countDistinct _ _ _ => by simp [unspine, RExpr.isSpine]
  | _, .array _ _ => by simp [unspine, RExpr.isSpine]
  | _, .extract _ _ => by simp [unspine, RExpr.isSpine]
  | _, .tuple _ _ _ => by simp [unspine, RExpr.isSpine]
  | _, .case _ _ _ _ => by simp [unspine, RExpr.isSpine]

/-- well-formedness of the expressions inside a spine step -/
def Sp.WF (T : PrecTables) : Sp → Prop
  | .bin o r => (∀ s, o = .sym s → s ≠ .single '.' ∧ (lookupOp T.binary s).isSome) ∧ RExpr.WF T r
  | .idx i => RExpr.WF T i
  | .cast t => ∀ u, t ≠ .array u
  | .inl _ v vs => RExpr.WF T v ∧ RExpr.WFs T vs

theorem unspine_wf (T : PrecTables) : ∀ (m : Int) (e : RExpr), RExpr.WF T e →
    RExpr.WF T (unspine T m e).1 ∧ ∀ q ∈ (unspine T m e).2, q.WF T
  | m, .bin o l r => by
    intro h
    unfold unspine; split
    · exact ⟨h, by simp⟩
    · simp only [RExpr.WF] at h
      obtain ⟨h1, h2⟩ := unspine_wf T (tokPrec T o.tok) l h.2.1
      refine ⟨h1, ?_⟩
      intro q hq
      simp only [List.mem_append, List.mem_singleton] at hq
      rcases hq with hq | hq
      · exact h2 q hq
      · subst hq; exact ⟨h.1, h.2.2⟩
  | m, .index a i => by
    intro h
    unfold unspine; split
    · exact ⟨h, by simp⟩
    · simp only [RExpr.WF] at h
      obtain ⟨h1, h2⟩ := unspine_wf T (tokPrec T .lsq) a h.1
      refine ⟨h1, ?_⟩
      intro q hq
      simp only [List.mem_append, List.mem_singleton] at hq
      rcases hq with hq | hq
      · exact h2 q hq
      · subst hq; exact h.2
  | m, .cast e t => by
    intro h
    unfold unspine; split
    · exact ⟨h, by simp⟩
    · simp only [RExpr.WF] at h
      obtain ⟨h1, h2⟩ := unspine_wf T (tokPrec T .dcolon) e h.2
      refine ⟨h1, ?_⟩
      intro q hq
      simp only [List.mem_append, List.mem_singleton] at hq
      rcases hq with hq | hq
      · exact h2 q hq
      · subst hq; exact h.1
  | m, .inList n e v vs => by
    intro h
    unfold unspine; split
    · exact ⟨h, by simp⟩
    · simp only [RExpr.WF] at h
      obtain ⟨h1, h2⟩ := unspine_wf T (tokPrec T (RExpr.inTok n)) e h.1
      refine ⟨h1, ?_⟩
      intro q hq
      simp only [List.mem_append, List.mem_singleton] at hq
      rcases hq with hq | hq
      · exact h2 q hq
      · subst hq; exact h.2
  | _, .lit _ => by intro h; exact ⟨h, by simp [unspine]⟩
  | _, .col _ _ => by intro h; exact ⟨h, by simp [unspine]⟩
  | _, .paren _ => by intro h; exact ⟨h, by simp [unspine]⟩
  | _, .not _ => by intro h; exact ⟨h, by simp [unspine]⟩
  | _, .neg _ => by intro h; exact ⟨h, by simp [unspine]⟩
  | _, .call _ _ => by intro h; exact ⟨h, by simp [unspine]⟩
  | _, .star => by intro h; exact ⟨h, by simp [unspine]⟩
  | _, .countDistinct _ _ _ => by intro h; exact ⟨h, by simp [unspine]⟩
  | _, .array _ _ => by intro h; exact ⟨h, by simp [unspine]⟩
  | _, .extract _ _ => by intro h; exact ⟨h, by simp [unspine]⟩
  | _, .tuple _ _ _ => by intro h; exact ⟨h, by simp [unspine]⟩
  | _, .case _ _ _ _ => by intro h; exact ⟨h, by simp [unspine]⟩

end Sqlgrep.Spec
