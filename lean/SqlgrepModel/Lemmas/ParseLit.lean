import SqlgrepModel.Model.ParseLit
/-
Literal syntax lemmas: `parseI64` accepts exactly the decimal integer literals that fit 64 bits and
returns the integer they denote; a rendered integer is read back unchanged.
-/
namespace Sqlgrep.Lit

theorem digitsVal_foldl (ds : List Nat) (acc : Nat) :
    ds.foldl (fun a b => a * 10 + (b - 48)) acc = acc * 10 ^ ds.length + digitsVal ds := by
  induction ds generalizing acc with
  | nil => simp [digitsVal]
  | cons b bs ih =>
    simp only [List.foldl_cons, List.length_cons, digitsVal]
    rw [ih, ih (0 * 10 + (b - 48))]
    simp only [Nat.zero_mul, Nat.zero_add, Nat.pow_succ]
    rw [Nat.add_mul, Nat.add_assoc]
    congr 1
    rw [Nat.mul_assoc, Nat.mul_comm 10]

/-- positional value: appending a digit multiplies by ten and adds it -/
theorem digitsVal_append_singleton (ds : List Nat) (b : Nat) :
    digitsVal (ds ++ [b]) = digitsVal ds * 10 + (b - 48) := by
  simp [digitsVal, List.foldl_append]

theorem parseDigits_some_iff (ds : List Nat) (k : Nat) :
    parseDigits ds = some k ↔ ds ≠ [] ∧ (∀ b ∈ ds, isDigit b = true) ∧ k = digitsVal ds := by
  unfold parseDigits
  cases ds with
  | nil => simp
  | cons b bs =>
    simp only [List.isEmpty_cons, Bool.false_eq_true, if_false, ne_eq, reduceCtorEq, not_false_eq_true, true_and]
    by_cases h : (b :: bs).all isDigit = true
    · simp only [h, if_true, Option.some.injEq]
      constructor
      · intro hk; exact ⟨by simpa [List.all_eq_true] using h, hk.symm⟩
      · intro hk; exact hk.2.symm
    · simp only [h, Bool.false_eq_true, if_false, reduceCtorEq, false_iff, not_and]
      intro hall
      exact absurd (List.all_eq_true.2 hall) h

/-- `s` is an optional sign followed by at least one ASCII digit and denotes the integer `n` -/
def IsIntLiteral (s : Text) (n : Int) : Prop :=
  ∃ ds : List Nat, ds ≠ [] ∧ (∀ b ∈ ds, isDigit b = true) ∧
    ((s = ds ∧ n = (digitsVal ds : Int)) ∨ (s = 43 :: ds ∧ n = (digitsVal ds : Int)) ∨
     (s = 45 :: ds ∧ n = -(digitsVal ds : Int)))

theorem inI64_iff (n : Int) : inI64 n = true ↔ -2 ^ 63 ≤ n ∧ n < 2 ^ 63 := by
  unfold inI64 i64Min i64Max
  simp only [Bool.and_eq_true, decide_eq_true_eq]
  omega

theorem parseI64_exact (s : Text) (n : Int) :
    parseI64 s = some n ↔ IsIntLiteral s n ∧ -2 ^ 63 ≤ n ∧ n < 2 ^ 63 := by
  rw [← inI64_iff]
  unfold parseI64 IsIntLiteral
  split
  · -- '-' digits
    rename_i ds
    cases hp : parseDigits ds with
    | none =>
      simp only [reduceCtorEq, false_iff, not_and]
      rintro ⟨ds', hne, hall, h | h | h⟩ _
      · have h1 := h.1; subst h1
        have := hall 45 List.mem_cons_self
        simp [isDigit] at this
      · cases h.1
      · have h1 := h.1
        injection h1 with _ h1
        subst h1
        have := (parseDigits_some_iff ds (digitsVal ds)).2 ⟨hne, hall, rfl⟩
        rw [hp] at this; cases this
    | some k =>
      obtain ⟨hne, hall, hk⟩ := (parseDigits_some_iff ds k).1 hp
      subst hk
      simp only []
      constructor
      · intro h
        split at h
        · injection h with h; subst h
          rename_i hin
          exact ⟨⟨ds, hne, hall, Or.inr (Or.inr ⟨rfl, rfl⟩)⟩, hin⟩
        · cases h
      · rintro ⟨⟨ds', hne', hall', h | h | h⟩, hin⟩
        · have h1 := h.1; subst h1
          have := hall' 45 List.mem_cons_self
          simp [isDigit] at this
        · cases h.1
        · have h1 := h.1
          injection h1 with _ h1
          subst h1
          rw [h.2] at hin
          simp [hin, h.2]
  · -- '+' digits
    rename_i ds
    cases hp : parseDigits ds with
    | none =>
      simp only [reduceCtorEq, false_iff, not_and]
      rintro ⟨ds', hne, hall, h | h | h⟩ _
      · have h1 := h.1; subst h1
        have := hall 43 List.mem_cons_self
        simp [isDigit] at this
      · have h1 := h.1
        injection h1 with _ h1
        subst h1
        have := (parseDigits_some_iff ds (digitsVal ds)).2 ⟨hne, hall, rfl⟩
        rw [hp] at this; cases this
      · cases h.1
    | some k =>
      obtain ⟨hne, hall, hk⟩ := (parseDigits_some_iff ds k).1 hp
      subst hk
      simp only []
      constructor
      · intro h
        split at h
        · injection h with h; subst h
          rename_i hin
          exact ⟨⟨ds, hne, hall, Or.inr (Or.inl ⟨rfl, rfl⟩)⟩, hin⟩
        · cases h
      · rintro ⟨⟨ds', hne', hall', h | h | h⟩, hin⟩
        · have h1 := h.1; subst h1
          have := hall' 43 List.mem_cons_self
          simp [isDigit] at this
        · have h1 := h.1
          injection h1 with _ h1
          subst h1
          rw [h.2] at hin
          simp [hin, h.2]
        · cases h.1
  · -- no sign
    rename_i h45 h43
    cases hp : parseDigits s with
    | none =>
      simp only [reduceCtorEq, false_iff, not_and]
      rintro ⟨ds', hne, hall, h | h | h⟩ _
      · have h1 := h.1; subst h1
        have := (parseDigits_some_iff s (digitsVal s)).2 ⟨hne, hall, rfl⟩
        rw [hp] at this; cases this
      · exact h43 _ h.1
      · exact h45 _ h.1
    | some k =>
      obtain ⟨hne, hall, hk⟩ := (parseDigits_some_iff s k).1 hp
      subst hk
      simp only []
      constructor
      · intro h
        split at h
        · injection h with h; subst h
          rename_i hin
          exact ⟨⟨s, hne, hall, Or.inl ⟨rfl, rfl⟩⟩, hin⟩
        · cases h
      · rintro ⟨⟨ds', hne', hall', h | h | h⟩, hin⟩
        · have h1 := h.1; subst h1
          rw [h.2] at hin
          simp [hin, h.2]
        · exact absurd h.1 (h43 _)
        · exact absurd h.1 (h45 _)

/-- canonical decimal rendering of a natural number -/
def renderNat (n : Nat) : List Nat :=
  if n < 10 then [48 + n] else renderNat (n / 10) ++ [48 + n % 10]
termination_by n
decreasing_by omega

/-- canonical decimal rendering of an integer (`-` for negatives) -/
def renderInt (n : Int) : Text := if n < 0 then 45 :: renderNat n.natAbs else renderNat n.natAbs

theorem renderNat_spec (n : Nat) :
    renderNat n ≠ [] ∧ (∀ b ∈ renderNat n, isDigit b = true) ∧ digitsVal (renderNat n) = n := by
  induction n using renderNat.induct with
  | case1 n h =>
    rw [renderNat]
    simp only [h, if_true]
    refine ⟨by simp, ?_, ?_⟩
    · intro b hb
      simp only [List.mem_singleton] at hb
      subst hb
      simp [isDigit]; omega
    · simp [digitsVal]
  | case2 n h ih =>
    rw [renderNat]
    simp only [h, if_false]
    obtain ⟨_, h2, h3⟩ := ih
    refine ⟨by simp, ?_, ?_⟩
    · intro b hb
      simp only [List.mem_append, List.mem_singleton] at hb
      rcases hb with hb | hb
      · exact h2 b hb
      · subst hb; simp [isDigit]; omega
    · rw [digitsVal_append_singleton, h3]; omega

/-- a rendered integer is read back unchanged: never truncated, wrapped or re-typed -/
theorem parseI64_render (n : Int) (h : -2 ^ 63 ≤ n ∧ n < 2 ^ 63) : parseI64 (renderInt n) = some n := by
  rw [parseI64_exact]
  refine ⟨?_, h⟩
  obtain ⟨h1, h2, h3⟩ := renderNat_spec n.natAbs
  refine ⟨renderNat n.natAbs, h1, h2, ?_⟩
  unfold renderInt
  by_cases hn : n < 0
  · rw [if_pos hn]
    right; right
    exact ⟨rfl, by rw [h3]; omega⟩
  · rw [if_neg hn]
    left
    exact ⟨rfl, by rw [h3]; omega⟩

/-! ### `str::trim` -/

theorem wsPrefix_le (s : Text) : wsPrefix s ≤ s.length := by
  unfold wsPrefix
  split
  · split
    · simp
    · split <;> (try split) <;> simp
  · simp

theorem trimStartFuel_suffix (fuel : Nat) : ∀ s : Text, ∃ l, s = l ++ trimStartFuel fuel s := by
  induction fuel with
  | zero => intro s; exact ⟨[], rfl⟩
  | succ n ih =>
    intro s
    simp only [trimStartFuel]
    split
    · exact ⟨[], rfl⟩
    · obtain ⟨l, hl⟩ := ih (s.drop (wsPrefix s))
      refine ⟨s.take (wsPrefix s) ++ l, ?_⟩
      rw [List.append_assoc, ← hl, List.take_append_drop]

theorem trimStartFuel_done (fuel : Nat) : ∀ s : Text, s.length ≤ fuel → wsPrefix (trimStartFuel fuel s) = 0 := by
  induction fuel with
  | zero =>
    intro s h
    have : s = [] := List.length_eq_zero_iff.1 (Nat.le_zero.1 h)
    subst this
    rfl
  | succ n ih =>
    intro s h
    simp only [trimStartFuel]
    split
    · rename_i hk; simpa using hk
    · rename_i hk
      apply ih
      have h1 := wsPrefix_le s
      have h2 : wsPrefix s ≠ 0 := by simpa using hk
      simp only [List.length_drop]
      omega

/-- `trim_start` removes a prefix and stops at the first non-whitespace character -/
theorem trimStart_spec (s : Text) : (∃ l, s = l ++ trimStart s) ∧ wsPrefix (trimStart s) = 0 :=
  ⟨trimStartFuel_suffix _ s, trimStartFuel_done _ s (Nat.le_refl _)⟩


theorem wsSuffixRev_le (r : Text) : wsSuffixRev r ≤ r.length := by
  unfold wsSuffixRev
  split
  · simp
  · split
    · simp
    · split <;> (try split) <;> simp

theorem trimEndRevFuel_suffix (fuel : Nat) : ∀ r : Text, ∃ l, r = l ++ trimEndRevFuel fuel r := by
  induction fuel with
  | zero => intro r; exact ⟨[], rfl⟩
  | succ n ih =>
    intro r
    simp only [trimEndRevFuel]
    split
    · exact ⟨[], rfl⟩
    · obtain ⟨l, hl⟩ := ih (r.drop (wsSuffixRev r))
      refine ⟨r.take (wsSuffixRev r) ++ l, ?_⟩
      rw [List.append_assoc, ← hl, List.take_append_drop]

theorem trimEndRevFuel_done (fuel : Nat) : ∀ r : Text, r.length ≤ fuel → wsSuffixRev (trimEndRevFuel fuel r) = 0 := by
  induction fuel with
  | zero =>
    intro r h
    have : r = [] := List.length_eq_zero_iff.1 (Nat.le_zero.1 h)
    subst this
    rfl
  | succ n ih =>
    intro r h
    simp only [trimEndRevFuel]
    split
    · rename_i hk; simpa using hk
    · rename_i hk
      apply ih
      have h1 := wsSuffixRev_le r
      have h2 : wsSuffixRev r ≠ 0 := by simpa using hk
      simp only [List.length_drop]
      omega

/-- `trim_end` removes a suffix and stops at the last non-whitespace character -/
theorem trimEnd_spec (s : Text) : (∃ r, s = trimEnd s ++ r) ∧ wsSuffixRev (trimEnd s).reverse = 0 := by
  unfold trimEnd
  constructor
  · obtain ⟨l, hl⟩ := trimEndRevFuel_suffix s.length s.reverse
    refine ⟨l.reverse, ?_⟩
    have := congrArg List.reverse hl
    simpa using this
  · rw [List.reverse_reverse]
    exact trimEndRevFuel_done _ _ (by simp)

/-- `trim`: a contiguous piece of the text with whitespace-free ends -/
theorem trim_spec (s : Text) :
    (∃ l r, s = l ++ trim s ++ r) ∧ wsSuffixRev (trim s).reverse = 0 ∧
    (∃ r, trimStart s = trim s ++ r) ∧ wsPrefix (trimStart s) = 0 := by
  unfold trim
  obtain ⟨⟨l, hl⟩, h0⟩ := trimStart_spec s
  obtain ⟨⟨r, hr⟩, h1⟩ := trimEnd_spec (trimStart s)
  refine ⟨⟨l, r, ?_⟩, h1, ⟨r, hr⟩, h0⟩
  rw [List.append_assoc, ← hr, ← hl]

end Sqlgrep.Lit
