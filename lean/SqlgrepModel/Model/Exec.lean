import SqlgrepModel.Model.Engine
/-
`FileExecutor::execute` (batch mode) over already split and extracted lines, with the text-format
printer, and the line-at-a-time driver used by follow mode. The `running` flag is sampled where the code
samples it; `stopAt` is the number of input lines after which the flag is found cleared.
-/
namespace Sqlgrep

/-- a physical line of an input file: readable (with its extracted row) or not valid UTF-8 -/
structure FileLine where
  readable : Bool
  line : Line
  deriving Repr, Inhabited

structure RunOut where
  printed : List String := []
  totalLines : Nat := 0
  error : Option ErrKind := none
  panicked : Bool := false
  skipped : Option String := none
  deriving Repr, Inhabited

/-- text format of one record (`OutputPrinter::print`, `OutputFormat::Text`) -/
def renderRecord (columns : List String) (row : List Value) : String :=
  match columns, row with
  | ["input"], [v] => display v
  | _, _ => ", ".intercalate ((columns.zip row).map (fun (n, v) => n ++ ": " ++ display v))

def printResult (out : RowOut) (single : Bool) : List String :=
  out.rows.map (renderRecord out.columns) ++ (if out.rows.length > 1 && !single then [""] else [])

def failWith {α : Type} (ro : RunOut) (o : Outcome α) : RunOut :=
  match o with
  | .error k => { ro with error := some k }
  | .panic _ => { ro with panicked := true }
  | .oracleMissing w => { ro with skipped := some w }
  | .ok _ => ro

structure LoopState where
  es : EngineState := {}
  out : RunOut := {}
  consumed : Nat := 0          -- lines looked at so far (for the interrupt point)
  stop : Bool := false         -- break out of all readers / abort
  deriving Inhabited

/-- one file of the batch loop -/
def runFile (O : Oracles) (qy : Query) (idx : JoinIndex) (withResult : Bool) (stopAt : Option Nat) :
    List FileLine → LoopState → LoopState
  | [], ls => ls
  | fl :: rest, ls =>
    -- `running` is sampled before the line is looked at: cleared ⇒ leave this file
    if stopAt == some ls.consumed then ls
    else if !fl.readable then { ls with out := { ls.out with error := some .failReadFile }, stop := true }
    else
      let ls := { ls with consumed := ls.consumed + 1, out := { ls.out with totalLines := ls.out.totalLines + 1 } }
      match executeLine O qy idx withResult ls.es fl.line with
      | .ok (es, lo) =>
        let printed := match lo.result with
          | some r => printResult r false
          | none => []
        let ls := { ls with es := es, out := { ls.out with printed := ls.out.printed ++ printed } }
        if lo.reachedLimit then { ls with stop := true } else runFile O qy idx withResult stopAt rest ls
      | o => { ls with out := failWith ls.out o, stop := true }

def runFiles (O : Oracles) (qy : Query) (idx : JoinIndex) (withResult : Bool) (stopAt : Option Nat) :
    List (List FileLine) → LoopState → LoopState
  | [], ls => ls
  | f :: rest, ls =>
    if ls.stop || reachedLimit qy ls.es then ls
    else
      let ls := runFile O qy idx withResult stopAt f ls
      if ls.stop then ls else runFiles O qy idx withResult stopAt rest ls

def hasFailed (ro : RunOut) : Bool := ro.error.isSome || ro.panicked || ro.skipped.isSome

/-- `execute_joined_table`: the joiner column of the queried table is checked first, then the joined file is
read completely (an unreadable line is an error) before the first input line -/
def setupJoin (t : TableInfo) (j : JoinInfo) (load : Outcome JoinIndex) : Outcome JoinIndex :=
  match indexOf? t.columns j.joinerColumn with
  | none => .error .columnNotFound
  | some _ => load

def loadJoinFile (j : JoinInfo) (lines : List FileLine) : Outcome JoinIndex :=
  -- the joined column is looked up before the file is opened
  if (indexOf? j.joined.columns j.joinedColumn).isNone then .error .columnNotFound
  else if lines.any (fun fl => !fl.readable) then
    -- rows before the unreadable line were indexed, but the error aborts the run
    .error .failReadFile
  else loadJoin j (lines.map (·.line))

/-- `FileExecutor::execute` -/
def runBatch (O : Oracles) (qy : Query) (joined : List FileLine) (files : List (List FileLine)) (stopAt : Option Nat) : RunOut :=
  let idxO : Outcome JoinIndex := match qy.join with
    | some j => setupJoin qy.table j (loadJoinFile j joined)
    | none => .ok []
  match idxO with
  | .ok idx =>
    let isAgg := match qy.stmt with
      | .aggregate _ => true
      | _ => false
    let ls := runFiles O qy idx (!isAgg) stopAt files {}
    if hasFailed ls.out then ls.out
    else match qy.stmt with
      | .aggregate q =>
        match finalResult O q ls.es with
        | .ok r => { ls.out with printed := ls.out.printed ++ printResult r true }
        | o => failWith ls.out o
      | _ => ls.out
  | o => failWith {} o

end Sqlgrep
