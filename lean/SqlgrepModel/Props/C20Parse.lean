import SqlgrepModel.Lemmas.ParseClauses
import SqlgrepModel.Lemmas.ParsePrefixClauses
import SqlgrepModel.Lemmas.ParseSemicolon
import SqlgrepModel.Lemmas.ParseClauseOrder
import SqlgrepModel.Lemmas.LowerNames
import SqlgrepModel.Props.Pipeline
/-
C20 — parser-level section (owner: builder `pstmt`; the lexical half — letter case of keywords, whitespace,
comments, string literals — and the C20 manifest are `Props/C20.lean`).

Clauses of the property sentence treated here, over the model the `pstmt` / `stmt` cases execute
(`Model/ParseStmt.lean`, `Model/ParseExpr.lean`, `Model/Lower.lean`):
  * an optional trailing semicolon,
  * the relative order of the JOIN / WHERE / GROUP BY / HAVING / LIMIT clauses,
  * letter case of function, aggregate and type names (and of the modifier / mode words that are identifiers).

LEVELS. The theorems of this file are about the clause loop (`clauseLoop`), about parse trees (`parseTokens` up to
token locations, `PSelect.SameUpToLoc`) and about the lowering of trees (`renameCalls`, `eraseLoc`). They are LIFTED to
whole token vectors, to the lowered statement (`parseToks` / `parseText` = `parsing::parse`) and to the answer of the
whole program (`runText`) in `Props/C20Stmt.lean` (audit-2 M11):
  * `clause_order_invariance` / `_from_run` (clause loop, slots up to locations)   ⟶ `C20Stmt.clause_order_invariance_tree`,
    `…_statement`, `…_text`, `clause_order_same_output`
  * `trailing_semicolon_statement` (trees up to locations)                          ⟶ `C20Stmt.trailing_semicolon_lowered`,
    `trailing_semicolon_text` (the texts `q`, `q ++ ";"`, `q ++ " ;"`), `trailing_semicolon_same_output`
  * `names_case_insensitive_statement` (trees related by `renameCalls`), `cast_type_case_insensitive`
                                                                                    ⟶ `C20Stmt.name_case_statement_partial`,
    `name_case_text_partial`, `name_case_same_output_partial` (token vectors; SELECT statements)
  * `column_type_case_insensitive`, `regex_mode_case_insensitive` (CREATE TABLE: `parse_type`, `parse_regex_mode`)
    are NOT lifted: helper level, see the `MISSING` paragraph in `Props/C20Stmt.lean`
  * `lowering_ignores_locations` in usable form: `C20Stmt.same_tree_same_statement`.

What is proved outright and what is `…_partial` is said at each theorem. The common piece is *prefix determinism* of
the expression parser (`Lemmas/ParsePrefix.lean`, builder `pexpr`): the six mutually recursive functions never look
past the first boundary token (clause keyword, `;`, `End`) of their input and treat all boundary tokens alike. With it
every WHERE / HAVING / GROUP BY segment whose expression is read in front of *one* boundary token is a clause
(`IsClause`: consumed exactly, whatever follows, at any locations), so clause order and the trailing `;` are theorems
about arbitrary expressions, the latter also for whole statements (`trailing_semicolon_statement`).
-/
namespace Sqlgrep.Props.C20Parse
open Sqlgrep Sqlgrep.Parse Sqlgrep.Lower

/-! ### clause order -/

/-- **The clause loop stores every clause in its own slot** (proved outright): for clauses of pairwise different
kinds, the slots filled are the same for every order in which they are stored. -/
theorem clause_slots_order_irrelevant {vs ws : List ClauseVal} (hp : vs.Perm ws)
    (hd : vs.Pairwise (fun a b => a.kind ≠ b.kind)) (c : Clauses) : putAll vs c = putAll ws c :=
  putAll_perm hp hd c

/-- **Prefix determinism of the expression parser**: with `swapB t2 s` = the state `s` whose tail from its first
boundary token on is replaced by the tokens of `t2` (another boundary token and anything behind it), the expression
parser answers on `swapB t2 s` what it answers on `s`, with the state it leaves transformed in the same way — for every
answer (tree, error, out of fuel) and every fuel. The same holds for the five other functions of the mutual block. -/
theorem expression_prefix_determinism (T : PrecTables) (hT : InertBoundary T) (t2 : PSt) (h2 : Boundary t2.cur.tok)
    (fuel : Nat) (s : PSt) : parseExpr T fuel (swapB t2 s) = (parseExpr T fuel s).mapSt (swapB t2) :=
  parseExpr_swapB hT h2 fuel s

/-- … in the form the clause loop needs: if the boundary-free tokens `body` are read as `e` in front of one boundary
tail, the same tokens at any other locations are read, in front of any other boundary tail and with any larger fuel,
as a tree equal to `e` up to locations, and the parser stops exactly in front of that tail. -/
theorem expression_consumes_exactly_its_tokens (T : PrecTables) (hT : InertBoundary T) (body body' : List PTok)
    (hnb : ∀ t ∈ body, ¬ Boundary t.tok) (hbody : body'.map (·.tok) = body.map (·.tok)) (tail0 tail : PSt)
    (hb0 : Boundary tail0.cur.tok) (hb : Boundary tail.cur.tok) (fuel0 fuel : Nat) (hf : fuel0 ≤ fuel) (e : PExpr)
    (hrun : parseExpr T fuel0 (PSt.prepend body tail0) = .ok e tail0) :
    ∃ e', parseExpr T fuel (PSt.prepend body' tail) = .ok e' tail ∧ e'.noLoc = e.noLoc :=
  parseExpr_prefix hT body body' hnb hbody tail0 tail hb0 hb fuel0 fuel hf e hrun

/-- **Clause order does not matter, given clauses** (proved outright relative to `IsClause`): if every segment is a
clause, the runs of the clause loop over two orders of the same clauses both succeed, consume everything up to `End`,
and return the same slots up to token locations (permuting clauses moves every token, so locations cannot agree). -/
theorem clause_order_invariance_of_clauses (T : PrecTables) (fuel0 : Nat) (final1 final2 : PSt)
    (h1 : final1.cur.tok = .eof) (h2 : final2.cur.tok = .eof)
    (segs1 segs2 : List (List PTok × ClauseVal)) (hne : segs1 ≠ [])
    (hperm : (segs1.map (·.2)).Perm (segs2.map (·.2)))
    (hs1 : ∀ p ∈ segs1, IsClause T fuel0 p.1 p.2) (hs2 : ∀ p ∈ segs2, IsClause T fuel0 p.1 p.2)
    (hd : segs1.Pairwise (fun a b => a.2.kind ≠ b.2.kind))
    (fuel : Nat) (hfuel : fuel0 + segs1.length ≤ fuel) :
    ∃ c1 c2, clauseLoop T fuel {} (PSt.prependAll (segs1.map (·.1)) final1) = .ok c1 final1 ∧
      clauseLoop T fuel {} (PSt.prependAll (segs2.map (·.1)) final2) = .ok c2 final2 ∧ c1.Same c2 :=
  clauseLoop_perm T fuel0 final1 final2 h1 h2 segs1 segs2 hne hperm hs1 hs2 hd fuel hfuel

/-- **`WHERE e`, `HAVING e`, `GROUP BY e, …` are clauses, for arbitrary expressions**: a segment made of the keyword(s)
and expression tokens `body'` is a clause as soon as the same tokens (at any locations; no clause keyword, `;` or `End`
among them) are read by the expression parser in front of *one* boundary token. -/
theorem where_is_a_clause (T : PrecTables) (hT : InertBoundary T) (body body' : List PTok)
    (hnb : ∀ t ∈ body, ¬ Boundary t.tok) (hbody : body'.map (·.tok) = body.map (·.tok)) (tail0 : PSt)
    (hb0 : Boundary tail0.cur.tok) (fuel0 : Nat) (e : PExpr)
    (hrun : parseExpr T fuel0 (PSt.prepend body tail0) = .ok e tail0) (l : Loc) :
    IsClause T fuel0 (⟨l, .kw .where⟩ :: body') (.filter e) :=
  isClause_where hT body body' hnb hbody tail0 hb0 fuel0 e hrun l

theorem having_is_a_clause (T : PrecTables) (hT : InertBoundary T) (body body' : List PTok)
    (hnb : ∀ t ∈ body, ¬ Boundary t.tok) (hbody : body'.map (·.tok) = body.map (·.tok)) (tail0 : PSt)
    (hb0 : Boundary tail0.cur.tok) (fuel0 : Nat) (e : PExpr)
    (hrun : parseExpr T fuel0 (PSt.prepend body tail0) = .ok e tail0) (l : Loc) :
    IsClause T fuel0 (⟨l, .kw .having⟩ :: body') (.having e) :=
  isClause_having hT body body' hnb hbody tail0 hb0 fuel0 e hrun l

theorem group_by_is_a_clause (T : PrecTables) (hT : InertBoundary T) (body body' : List PTok)
    (hnb : ∀ t ∈ body, ¬ Boundary t.tok) (hbody : body'.map (·.tok) = body.map (·.tok)) (tail0 : PSt)
    (hb0 : Boundary tail0.cur.tok) (fuel0 : Nat) (ks : List PExpr)
    (hrun : groupKeys T fuel0 (PSt.prepend body tail0) = .ok ks tail0) (l1 l2 : Loc) :
    IsClause T fuel0 (⟨l1, .kw .group⟩ :: ⟨l2, .kw .by⟩ :: body') (.groupBy ks) :=
  isClause_groupBy hT body body' hnb hbody tail0 hb0 fuel0 ks hrun l1 l2

/-- **Clause order does not matter** (clause loop; for whole statements see `C20Stmt.clause_order_invariance_statement`)
— `clause_order_invariance`: let the first token vector consist of clauses
(`ClauseSeg`: `LIMIT n`, a JOIN, or `WHERE e` / `HAVING e` / `GROUP BY e, …` with *arbitrary* expressions, each
expression being readable on its own in front of some boundary token) of pairwise different kinds, followed by `End`;
let the second consist of the same clauses (`clauseKey`: the same token sequences with the same values, at any
locations) in any other order. Then the clause loop reads both completely and returns the same slots up to token
locations. No `IsClause` hypothesis is left: "each clause parser consumes exactly its clause" is now a theorem. -/
theorem clause_order_invariance (T : PrecTables) (hT : InertBoundary T) (fuel0 : Nat) (final1 final2 : PSt)
    (h1 : final1.cur.tok = .eof) (h2 : final2.cur.tok = .eof)
    (segs1 segs2 : List (List PTok × ClauseVal)) (hne : segs1 ≠ [])
    (hs1 : ∀ p ∈ segs1, ClauseSeg T fuel0 (p.1.map (·.tok)) p.2)
    (hperm : (segs1.map clauseKey).Perm (segs2.map clauseKey))
    (hd : segs1.Pairwise (fun a b => a.2.kind ≠ b.2.kind))
    (fuel : Nat) (hfuel : fuel0 + segs1.length ≤ fuel) :
    ∃ c1 c2, clauseLoop T fuel {} (PSt.prependAll (segs1.map (·.1)) final1) = .ok c1 final1 ∧
      clauseLoop T fuel {} (PSt.prependAll (segs2.map (·.1)) final2) = .ok c2 final2 ∧ c1.Same c2 :=
  clauseLoop_perm_tokens hT fuel0 final1 final2 h1 h2 segs1 segs2 hne hs1 hperm hd fuel hfuel

/-- `LIMIT n` is a clause whatever follows (no hypothesis) -/
theorem limit_is_a_clause (T : PrecTables) (l1 l2 : Loc) (n : Int) :
    IsClause T 0 [⟨l1, .kw .limit⟩, ⟨l2, .int n⟩] (.limit (asUsize n)) := isClause_limit T l1 l2 n

/-- `INNER|OUTER JOIN u::'f' ON a.b = c.d` is a clause whatever follows (no hypothesis) -/
theorem join_is_a_clause (T : PrecTables) (l : Fin 13 → Loc) (outer : Bool) (u f a b c d : List Char) :
    IsClause T 0
      [⟨l 0, .kw (if outer then .outer else .inner)⟩, ⟨l 1, .kw .join⟩, ⟨l 2, .ident u⟩, ⟨l 3, .dcolon⟩, ⟨l 4, .str f⟩,
       ⟨l 5, .kw .on⟩, ⟨l 6, .ident a⟩, ⟨l 7, .op (.single '.')⟩, ⟨l 8, .ident b⟩, ⟨l 9, .op (.single '=')⟩,
       ⟨l 10, .ident c⟩, ⟨l 11, .op (.single '.')⟩, ⟨l 12, .ident d⟩]
      (.join { joinerTable := u, joinerFilename := f, leftTable := a, leftColumn := b, rightTable := c,
               rightColumn := d, isOuter := outer }) := isClause_join T l outer u f a b c d

/-- `WHERE x` / one identifier is a clause whatever follows, for every table that gives the clause keywords, `;` and
`End` no precedence (`inertBoundary_code`: true of the code's tables): the simplest instance of the expression case,
showing why the value can only be the same *up to locations* — the column node carries the location of the token
that follows it -/
theorem where_ident_is_a_clause (T : PrecTables) (hT : InertBoundary T) (l1 l2 : Loc) (x : List Char) :
    IsClause T 4 [⟨l1, .kw .where⟩, ⟨l2, .ident x⟩] (.filter (.column ⟨0, 0⟩ x)) := isClause_where_ident T hT l1 l2 x

/-- **Clause order does not matter, starting from "the first order parses"** — `clause_order_invariance_from_run`:
let `segs1` be segments of the shape "clause keyword, then tokens none of which is a clause keyword, `;` or `End`"
(`SegShape`: what one gets by cutting the token vector in front of every clause keyword) and suppose the clause loop
reads `segs1` followed by `End` without error. Then it stopped at that `End`, and for every rearrangement `segs2` of
the segments (the same token sequences, at any locations) followed by `End` the loop succeeds as well, stops at `End`,
and returns the same slots up to locations. No hypothesis about the individual clauses is left: that every segment is
a clause, with which value, and that the kinds are pairwise different is read off the successful run. -/
theorem clause_order_invariance_from_run (T : PrecTables) (hT : InertBoundary T) (fuel : Nat)
    (segs1 segs2 : List (List PTok)) (final1 final2 : PSt) (h1 : final1.cur.tok = .eof) (h2 : final2.cur.tok = .eof)
    (hshape : ∀ seg ∈ segs1, SegShape seg)
    (hperm : (segs1.map (fun seg => seg.map (·.tok))).Perm (segs2.map (fun seg => seg.map (·.tok))))
    (c1 : Clauses) (sF : PSt) (hrun : clauseLoop T fuel {} (PSt.prependAll segs1 final1) = .ok c1 sF) :
    sF = final1 ∧
      ∃ c2, clauseLoop T (fuel + segs1.length) {} (PSt.prependAll segs2 final2) = .ok c2 final2 ∧ c1.Same c2 :=
  clauseLoop_perm_of_run hT fuel segs1 segs2 final1 final2 h1 h2 hshape hperm c1 sF hrun

/-- the shape hypothesis on a segment with an expression: `WHERE a = 1` -/
example (w : Loc) (l : Fin 3 → Loc) : SegShape (⟨w, .kw .where⟩ :: exampleBody l) :=
  ⟨_, _, rfl, by simp [ClauseKw], exampleBody_nb l⟩

/-! ### trailing semicolon -/

/-- **Optional trailing semicolon** — `trailing_semicolon` (clause level, arbitrary expressions): the same clauses
followed by `End`, or by `;` `End` (token vectors at any locations), are both read completely by the clause loop and
give the same slots up to locations; the `;` is consumed by the loop's own `;` arm. -/
theorem trailing_semicolon (T : PrecTables) (hT : InertBoundary T) (fuel0 : Nat) (l0 l l' : Loc)
    (segs1 segs2 : List (List PTok × ClauseVal)) (hne : segs1 ≠ [])
    (hs1 : ∀ p ∈ segs1, ClauseSeg T fuel0 (p.1.map (·.tok)) p.2)
    (hsame : segs1.map clauseKey = segs2.map clauseKey)
    (hd : segs1.Pairwise (fun a b => a.2.kind ≠ b.2.kind))
    (fuel : Nat) (hfuel : fuel0 + segs1.length + 1 ≤ fuel) :
    ∃ c1 c2, clauseLoop T fuel {} (PSt.prependAll (segs1.map (·.1)) ⟨⟨l0, .eof⟩, []⟩) = .ok c1 ⟨⟨l0, .eof⟩, []⟩ ∧
      clauseLoop T fuel {} (PSt.prependAll (segs2.map (·.1)) ⟨⟨l, .semi⟩, [⟨l', .eof⟩]⟩) = .ok c2 ⟨⟨l', .eof⟩, []⟩ ∧
      c1.Same c2 :=
  clauseLoop_trailing_semi hT fuel0 l0 l l' segs1 segs2 hne hs1 hsame hd fuel hfuel

/-- the local step: where a clause run ends at `End`, the same run followed by `;` `End` ends with the same slots, the
`;` being consumed by the loop's own `;` arm -/
theorem trailing_semicolon_loop_step (T : PrecTables) (fuel : Nat) (c : Clauses) (l l' : Loc) :
    clauseLoop T (fuel + 1) c { cur := ⟨l, .semi⟩, rest := [⟨l', .eof⟩] } = .ok c { cur := ⟨l', .eof⟩, rest := [] } := by
  simp [clauseLoop, clauseTurn, next]

/-- **Optional trailing semicolon, whole statements** (trees up to locations; composed with the lowering and the
tokenizer in `C20Stmt.trailing_semicolon_text`) — `trailing_semicolon_statement`: let `pre` be any token vector
without `;` and without `End` tokens. `Parser::parse` (with the fuel it is run with) reads `pre ++ [End]` as a SELECT
statement **iff** it reads `pre ++ [;, End]` as a SELECT statement, and then the two trees are the same up to token
locations (`PSelect.SameUpToLoc`: same DISTINCT flag, projections and aliases, table, file, and the same five clause
slots, expressions compared modulo locations) — for arbitrary projections and clause expressions, any locations of
`;` and `End`.
What the side condition excludes, and what happens there:
* `;` inside `pre`: the equivalence fails — `SELECT x FROM t ; ;` followed by `End` is accepted (the loop takes one `;`,
  `Parser::parse` the other) but followed by `;` `End` it is rejected with `TooManyTokens` (example below);
* CREATE TABLE statements: their `;` is not optional — it is the terminator `parse_create_table` demands
  (`ExpectedSemiColon` without it, example below), so the theorem is about SELECT trees only; a vector whose tree is a
  CREATE TABLE contains a `;` and is outside the side condition anyway. -/
theorem trailing_semicolon_statement (T : PrecTables) (hT : InertBoundary T) (pre : List PTok)
    (hpre : ∀ t ∈ pre, t.tok ≠ .semi ∧ t.tok ≠ .eof) (l0 l l' : Loc) :
    (∀ q, parseTokens T (pre ++ [⟨l0, .eof⟩]) = .tree (.select q) →
      ∃ q', parseTokens T (pre ++ [⟨l, .semi⟩, ⟨l', .eof⟩]) = .tree (.select q') ∧ q.SameUpToLoc q') ∧
    (∀ q', parseTokens T (pre ++ [⟨l, .semi⟩, ⟨l', .eof⟩]) = .tree (.select q') →
      ∃ q, parseTokens T (pre ++ [⟨l0, .eof⟩]) = .tree (.select q) ∧ q'.SameUpToLoc q) :=
  ⟨fun q h => semicolon_transfer hT pre hpre l0 l l' ⟨⟨l0, .eof⟩, []⟩ ⟨⟨l, .semi⟩, [⟨l', .eof⟩]⟩ (.inl ⟨rfl, rfl⟩) q h,
   fun q' h => semicolon_transfer hT pre hpre l0 l l' ⟨⟨l, .semi⟩, [⟨l', .eof⟩]⟩ ⟨⟨l0, .eof⟩, []⟩ (.inr ⟨rfl, rfl⟩) q' h⟩

/-- the hypotheses of `trailing_semicolon_statement` are satisfiable: the model reads
`SELECT a, b AS c FROM t WHERE a = 1 GROUP BY a End` as a SELECT statement -/
example : isSelect (parseTokens PrecTables.code (exampleSelect ++ [⟨⟨0, 15⟩, .eof⟩])) = true ∧
    (∀ t ∈ exampleSelect, t.tok ≠ .semi ∧ t.tok ≠ .eof) := by decide

/-- `; ;`: with a `;` inside `pre` the equivalence fails (accepted with `End`, `TooManyTokens` with `;` `End`) -/
example : isSelect (parseTokens PrecTables.code (exampleSelectTwoSemis ++ [⟨⟨0, 6⟩, .eof⟩])) = true ∧
    errKind? (parseTokens PrecTables.code (exampleSelectTwoSemis ++ [⟨⟨0, 6⟩, .semi⟩, ⟨⟨0, 7⟩, .eof⟩])) = some .tooManyTokens := by
  decide

/-- CREATE TABLE: the `;` is mandatory -/
example : isCreate (parseTokens PrecTables.code (exampleCreate ++ [⟨⟨0, 16⟩, .semi⟩, ⟨⟨0, 17⟩, .eof⟩])) = true ∧
    errKind? (parseTokens PrecTables.code (exampleCreate ++ [⟨⟨0, 16⟩, .eof⟩])) = some .expectedSemiColon := by
  decide

/-- … and without clauses: `SELECT … FROM t;` and `SELECT … FROM t` give the same (empty) slots -/
theorem trailing_semicolon_no_clause (T : PrecTables) (fuel : Nat) (l l' : Loc) :
    (∃ s', clauses T (fuel + 1) { cur := ⟨l, .semi⟩, rest := [⟨l', .eof⟩] } = .ok {} s') ∧
    (∃ s', clauses T (fuel + 1) { cur := ⟨l, .eof⟩, rest := [] } = .ok {} s') := by
  constructor
  · exact ⟨{ cur := ⟨l', .eof⟩, rest := [] }, by simp [clauses, clauseLoop, clauseTurn, next]⟩
  · exact ⟨{ cur := ⟨l, .eof⟩, rest := [] }, by simp [clauses]⟩

/-- after a statement, `Parser::parse` accepts one optional `;` and returns the statement unchanged (proved outright,
for every statement parser result) -/
theorem trailing_semicolon_after_statement (T : PrecTables) (fuel : Nat) (s s' : PSt) (op : POp) (l l' : Loc)
    (hk : s.cur.tok = .kw .select ∨ s.cur.tok = .kw .create)
    (h : parseStatement T fuel s = .ok op s') :
    (s' = { cur := ⟨l', .eof⟩, rest := [] } → parseOp T fuel s = .ok op s') ∧
    (s' = { cur := ⟨l, .semi⟩, rest := [⟨l', .eof⟩] } → parseOp T fuel s = .ok op { cur := ⟨l', .eof⟩, rest := [] }) := by
  have hk' : ¬(s.cur.tok ≠ .kw .select ∧ s.cur.tok ≠ .kw .create) := by
    rcases hk with h | h <;> simp [h]
  constructor
  · intro hs
    unfold parseOp
    simp only [hk', if_false, h]
    subst hs
    simp [optSemi]
  · intro hs
    unfold parseOp
    simp only [hk', if_false, h]
    subst hs
    simp [optSemi, next]

/-! ### letter case of names -/

/-- **Function names** (proved outright, all expressions without aggregates — WHERE, GROUP BY parts, aggregate
arguments): respelling every call name by a change of letter case (`CaseOnly ρ`: the lower-cased word is the same)
does not change the lowering; only the payload of an `UndefinedFunction` error shows the spelling. -/
theorem names_case_insensitive (ρ : List Char → List Char) (hρ : CaseOnly ρ) (e : PExpr) :
    lowerPlain (e.renameCalls ρ) = (lowerPlain e).mapErr (CErr.rename ρ) :=
  (lowerPlain_case ρ hρ).1 e

/-- **Aggregate names** (proved outright): `transform_call_aggregate` and the aggregate detection see a name only
lower-cased, so `SUM(x)`, `sum(x)` and `Sum(x)` are the same aggregate with the same default name. -/
theorem aggregate_names_case_insensitive {n1 n2 : List Char} (h : lowerChars n1 = lowerChars n2)
    (loc : Loc) (args : List PExpr) (d : Option Bool) (i : Nat) :
    lowerCallAggregate loc n1 args d i = lowerCallAggregate loc n2 args d i ∧
    isAggregateName n1 = isAggregateName n2 :=
  ⟨lowerCallAggregate_case h loc args d i, isAggregateName_case h⟩

/-- **Type names in casts** (proved outright): `x::INT` and `x::int` build the same node -/
theorem cast_type_case_insensitive {n1 n2 : List Char} (h : lowerChars n1 = lowerChars n2) (loc l1 l2 : Loc)
    (lhs t : PExpr) :
    combine loc .dcolon lhs (.column l1 n1) = .ok t ↔ combine loc .dcolon lhs (.column l2 n2) = .ok t := by
  simp only [combine, h]
  cases VType.ofIdent (lowerChars n2) <;> simp

/-- **Type names in column definitions** (proved outright): `INT`, `int`, `Int[]` … — the type `parse_type` returns
depends on the identifier only through its lower-cased spelling -/
theorem column_type_case_insensitive {n1 n2 : List Char} (h : lowerChars n1 = lowerChars n2) (fuel : Nat) (l : Loc)
    (rest : List PTok) (t : VType) (s' : PSt) :
    parseType fuel { cur := ⟨l, .ident n1⟩, rest := rest } = .ok t s' ↔
    parseType fuel { cur := ⟨l, .ident n2⟩, rest := rest } = .ok t s' := by
  simp only [parseType, consumeIdentifier, PRes.bind, next]
  cases rest with
  | nil => simp [mkErr]
  | cons r rs =>
    simp only
    cases typeBrackets fuel 0 { cur := r, rest := rs } with
    | ok n s1 => simp only [h]; cases VType.ofIdent (lowerChars n2) <;> simp
    | err e s1 => simp
    | fuel => simp

/-- **Pattern modes** (proved outright): every spelling of `split` / `match` is recognised -/
theorem regex_mode_case_insensitive (n : List Char) (l : Loc) (t : PTok) (r : List PTok) :
    (lowerChars n = "split".toList →
      parseRegexMode { cur := ⟨l, .ident n⟩, rest := t :: r } = .ok .split { cur := t, rest := r }) ∧
    (lowerChars n = "match".toList →
      parseRegexMode { cur := ⟨l, .ident n⟩, rest := t :: r } = .ok .captures { cur := t, rest := r }) := by
  constructor
  · intro h; simp [parseRegexMode, h, next]
  · intro h
    simp [parseRegexMode, h, next]

/-! ### token locations (layout) — the statement parser, the lowering, and the whole program -/

/-- **The statement parser reads only the tokens** (proved outright): on a token vector with other locations
`Parser::parse` returns the same tree up to locations, or an error of the same kind -/
theorem parser_ignores_locations (T : PrecTables) (toks : List PTok) :
    parseTokens T (toks.map PTok.strip) = (parseTokens T toks).strip :=
  parseTokens_strip T toks

/-- **The lowering reads a tree's locations only into errors** (proved outright): trees equal up to locations lower
to the same statement, or to a conversion error of the same kind -/
theorem lowering_ignores_locations (rv : List Char → Bool) (t : POp) :
    lowerStatement rv t.eraseLoc = (lowerStatement rv t).mapErr CErr.strip :=
  lowerStatement_erase rv t

/-- whole-statement form of `names_case_insensitive`: letter case of function and aggregate names does not matter to
any statement (projections with aggregate extraction and naming, WHERE, GROUP BY, HAVING). The two trees are related
by `renameCalls`; that respelling the TOKENS respells the tree this way is `C20Stmt.name_case_tree_partial`. -/
theorem names_case_insensitive_statement (ρ : List Char → List Char) (hρ : CaseOnly ρ) (rv : List Char → Bool) (t : POp) :
    lowerStatement rv (t.renameCalls ρ) = (lowerStatement rv t).mapErr (CErr.rename ρ) :=
  lowerStatement_rename ρ hρ rv t

/-- **Parse to the same statement and therefore produce the same output** (C20 end to end, proved outright): texts
that are layouts of the same lexemes — letter case of keywords, whitespace, line breaks, comments — give the same
end-to-end run of the program (`Props/Pipeline.lean`: tokenizer `layout_invariance` + `location_blind` +
`runText_depends_on_statements`) -/
theorem same_statement_same_output (F : Pipeline.Facts) (D₁ D₂ Q₁ Q₂ : Lex.Layout)
    (hD₁ : D₁.Ok (Pipeline.lexOracles F)) (hD₂ : D₂.Ok (Pipeline.lexOracles F))
    (hQ₁ : Q₁.Ok (Pipeline.lexOracles F)) (hQ₂ : Q₂.Ok (Pipeline.lexOracles F))
    (sameD : D₁.lexemes.map (·.tok (Pipeline.lexOracles F)) = D₂.lexemes.map (·.tok (Pipeline.lexOracles F)))
    (sameQ : Q₁.lexemes.map (·.tok (Pipeline.lexOracles F)) = Q₂.lexemes.map (·.tok (Pipeline.lexOracles F)))
    (fmt : Print.Format) (single : Bool) (files : List (List Nat)) (d q : LStmt)
    (hc₁ : Pipeline.classesCover F D₁.text = true ∧ Pipeline.classesCover F Q₁.text = true)
    (hc₂ : Pipeline.classesCover F D₂.text = true ∧ Pipeline.classesCover F Q₂.text = true)
    (hd : Pipeline.parseText (Pipeline.lexOracles F) (Pipeline.regexValidFn F) D₁.text = .stmt d)
    (hp : (Pipeline.createPatterns d).all (fun re => ((Utf8.decode re).bind (Pipeline.regexValidOf F)).isSome) = true)
    (hq : Pipeline.parseText (Pipeline.lexOracles F) (Pipeline.regexValidFn F) Q₁.text = .stmt q) :
    Pipeline.runText F D₁.text Q₁.text fmt single files = Pipeline.runText F D₂.text Q₂.text fmt single files :=
  Props.Pipeline.same_statement_same_output F D₁ D₂ Q₁ Q₂ hD₁ hD₂ hQ₁ hQ₂ sameD sameQ fmt single files d q hc₁ hc₂ hd hp hq

/-! ### non-vacuity -/

/-- a respelling that upper-cases one name is a change of case only -/
example : CaseOnly (fun n => if n = ['a', 'b', 's'] then ['A', 'B', 'S'] else n) := by
  intro n
  by_cases h : n = ['a', 'b', 's']
  · subst h; decide
  · simp [h]

example : lowerChars ['S', 'u', 'M'] = lowerChars ['s', 'u', 'm'] := by decide

example : lowerPlain (.call ⟨0, 0⟩ ['A', 'B', 'S'] [.column ⟨0, 4⟩ ['x']] none)
    = lowerPlain (.call ⟨0, 0⟩ ['a', 'b', 's'] [.column ⟨0, 4⟩ ['x']] none) := rfl

/-- three clauses in two orders: LIMIT, JOIN and LIMIT/JOIN swapped satisfy the hypotheses of
`clause_order_invariance_of_clauses` without any assumption -/
example (T : PrecTables) (l : Fin 13 → Loc) (l1 l2 e1 e2 : Loc) :
    ∃ c1 c2,
      clauseLoop T 2 {} (PSt.prependAll
        [[⟨l1, .kw .limit⟩, ⟨l2, .int 5⟩],
         [⟨l 0, .kw .inner⟩, ⟨l 1, .kw .join⟩, ⟨l 2, .ident ['u']⟩, ⟨l 3, .dcolon⟩, ⟨l 4, .str ['f']⟩, ⟨l 5, .kw .on⟩,
          ⟨l 6, .ident ['t']⟩, ⟨l 7, .op (.single '.')⟩, ⟨l 8, .ident ['k']⟩, ⟨l 9, .op (.single '=')⟩,
          ⟨l 10, .ident ['u']⟩, ⟨l 11, .op (.single '.')⟩, ⟨l 12, .ident ['k']⟩]]
        { cur := ⟨e1, .eof⟩, rest := [] }) = .ok c1 { cur := ⟨e1, .eof⟩, rest := [] } ∧
      clauseLoop T 2 {} (PSt.prependAll
        [[⟨l 0, .kw .inner⟩, ⟨l 1, .kw .join⟩, ⟨l 2, .ident ['u']⟩, ⟨l 3, .dcolon⟩, ⟨l 4, .str ['f']⟩, ⟨l 5, .kw .on⟩,
          ⟨l 6, .ident ['t']⟩, ⟨l 7, .op (.single '.')⟩, ⟨l 8, .ident ['k']⟩, ⟨l 9, .op (.single '=')⟩,
          ⟨l 10, .ident ['u']⟩, ⟨l 11, .op (.single '.')⟩, ⟨l 12, .ident ['k']⟩],
         [⟨l1, .kw .limit⟩, ⟨l2, .int 5⟩]]
        { cur := ⟨e2, .eof⟩, rest := [] }) = .ok c2 { cur := ⟨e2, .eof⟩, rest := [] } ∧ c1.Same c2 := by
  have hj := isClause_join T l false ['u'] ['f'] ['t'] ['k'] ['u'] ['k']
  have hl := isClause_limit T l1 l2 5
  exact clause_order_invariance_of_clauses T 0 _ _ rfl rfl
    [(_, .limit (asUsize 5)), (_, .join _)] [(_, .join _), (_, .limit (asUsize 5))] (by simp)
    (by simp; exact List.Perm.swap _ _ _)
    (by intro p hp; simp at hp; rcases hp with rfl | rfl; exact hl; exact hj)
    (by intro p hp; simp at hp; rcases hp with rfl | rfl; exact hj; exact hl)
    (by simp [ClauseVal.kind]) 2 (by simp)

/-- `WHERE x LIMIT 5` and `LIMIT 5 WHERE x` give the same slots (up to locations), with the code's tables -/
example (l1 l2 l3 l4 e1 e2 : Loc) :
    ∃ c1 c2,
      clauseLoop PrecTables.code 6 {} (PSt.prependAll
        [[⟨l1, .kw .where⟩, ⟨l2, .ident ['x']⟩], [⟨l3, .kw .limit⟩, ⟨l4, .int 5⟩]]
        { cur := ⟨e1, .eof⟩, rest := [] }) = .ok c1 { cur := ⟨e1, .eof⟩, rest := [] } ∧
      clauseLoop PrecTables.code 6 {} (PSt.prependAll
        [[⟨l3, .kw .limit⟩, ⟨l4, .int 5⟩], [⟨l1, .kw .where⟩, ⟨l2, .ident ['x']⟩]]
        { cur := ⟨e2, .eof⟩, rest := [] }) = .ok c2 { cur := ⟨e2, .eof⟩, rest := [] } ∧ c1.Same c2 := by
  have hw := isClause_where_ident PrecTables.code inertBoundary_code l1 l2 ['x']
  have hl : IsClause PrecTables.code 4 [⟨l3, .kw .limit⟩, ⟨l4, .int 5⟩] (.limit (asUsize 5)) :=
    ⟨(isClause_limit PrecTables.code l3 l4 5).head,
     fun fuel c tail _ hb hf => (isClause_limit PrecTables.code l3 l4 5).turn fuel c tail (by omega) hb hf⟩
  exact clause_order_invariance_of_clauses PrecTables.code 4 _ _ rfl rfl
    [(_, .filter (.column ⟨0, 0⟩ ['x'])), (_, .limit (asUsize 5))] [(_, .limit (asUsize 5)), (_, .filter (.column ⟨0, 0⟩ ['x']))]
    (by simp) (by simp; exact List.Perm.swap _ _ _)
    (by intro p hp; simp at hp; rcases hp with rfl | rfl; exact hw; exact hl)
    (by intro p hp; simp at hp; rcases hp with rfl | rfl; exact hl; exact hw)
    (by simp [ClauseVal.kind]) 6 (by simp)

/-- `WHERE a = 1 LIMIT 5` and `LIMIT 5 WHERE a = 1` (all tokens at arbitrary, different locations) satisfy the
hypotheses of `clause_order_invariance` with the code's tables: the only thing used about the expression is one run of
the model on `a = 1 End` -/
example (l m : Fin 3 → Loc) (w1 w2 k1 k2 k3 k4 e1 e2 : Loc) :
    ∃ c1 c2,
      clauseLoop PrecTables.code 20 {} (PSt.prependAll
        [⟨w1, .kw .where⟩ :: exampleBody l, [⟨k1, .kw .limit⟩, ⟨k2, .int 5⟩]] ⟨⟨e1, .eof⟩, []⟩) = .ok c1 ⟨⟨e1, .eof⟩, []⟩ ∧
      clauseLoop PrecTables.code 20 {} (PSt.prependAll
        [[⟨k3, .kw .limit⟩, ⟨k4, .int 5⟩], ⟨w2, .kw .where⟩ :: exampleBody m] ⟨⟨e2, .eof⟩, []⟩) = .ok c2 ⟨⟨e2, .eof⟩, []⟩ ∧
      c1.Same c2 := by
  let e : PExpr := .binop (l 1) (.single '=') (.column (l 1) ['a']) (.value (l 2) (.int 1))
  refine clause_order_invariance PrecTables.code inertBoundary_code 10 _ _ rfl rfl
    [(⟨w1, .kw .where⟩ :: exampleBody l, .filter e), ([⟨k1, .kw .limit⟩, ⟨k2, .int 5⟩], .limit (asUsize 5))]
    [([⟨k3, .kw .limit⟩, ⟨k4, .int 5⟩], .limit (asUsize 5)), (⟨w2, .kw .where⟩ :: exampleBody m, .filter e)]
    (by simp) ?_ ?_ (by simp [ClauseVal.kind]) 20 (by simp)
  · intro p hp
    simp only [List.mem_cons, List.mem_nil_iff, or_false] at hp
    rcases hp with rfl | rfl
    · exact ClauseSeg.filter (exampleBody l) (exampleBody_nb l) ⟨⟨e1, .eof⟩, []⟩ (by simp [Boundary]) e (exampleRun l e1)
    · exact ClauseSeg.limit 5
  · simp only [List.map_cons, List.map_nil, clauseKey, exampleBody]
    exact List.Perm.swap _ _ _

end Sqlgrep.Props.C20Parse
