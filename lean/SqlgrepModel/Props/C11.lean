import SqlgrepModel.Model.Exec
/-
C11 — incremental (tail -f) results equal a batch run over the same prefix.

Follow mode feeds lines one at a time through `executeLine … (withResult := true)`; batch mode runs
`executeLine … (withResult := false)` for aggregates (update only) and prints one final table, and the very
same per-line step for non-aggregates. Part 1 (this file, proved): non-aggregate statements — the rows
emitted for the k-th line are exactly the rows by which the batch output over k lines extends the batch
output over k−1 lines. Part 2 (aggregates: the table after the k-th update+result equals the batch result
over the first k lines) builds on the aggregation refinement lemmas (Lemmas/Agg*.lean).
-/
namespace Sqlgrep.Props.C11
open Sqlgrep

/-- for a non-aggregate statement the engine's per-line step is the same function in follow and batch mode -/
theorem select_step_mode_independent (O : Oracles) (qy : Query) (idx : JoinIndex) (es : EngineState) (l : Line)
    (q : SelectStmt) (hq : qy.stmt = .select q) :
    executeLine O qy idx true es l = executeLine O qy idx false es l := by
  simp only [executeLine, hq]

/-- what one readable line adds to a batch run that has not stopped: its own records, after the records so far -/
theorem batch_line_extends (O : Oracles) (qy : Query) (idx : JoinIndex) (w : Bool) (fl : FileLine) (ls : LoopState)
    (es' : EngineState) (lo : LineOut) (hr : fl.readable = true)
    (hx : executeLine O qy idx w ls.es fl.line = .ok (es', lo)) :
    (runFile O qy idx w none [fl] ls).out.printed =
      ls.out.printed ++ (match lo.result with
        | some r => printResult r false
        | none => []) := by
  simp only [runFile, hr, hx]
  by_cases hl : lo.reachedLimit = true <;> simp [hl, runFile] <;> rfl

/-- the batch loop over `pre ++ [fl]` is the batch loop over `pre` followed by the step for `fl`
(as long as the run over `pre` neither failed nor reached a limit) -/
theorem runFile_append (O : Oracles) (qy : Query) (idx : JoinIndex) (w : Bool) (pre : List FileLine) (fl : FileLine)
    (ls : LoopState) (hstop : (runFile O qy idx w none pre ls).stop = false) :
    runFile O qy idx w none (pre ++ [fl]) ls = runFile O qy idx w none [fl] (runFile O qy idx w none pre ls) := by
  -- keep the last step folded while the prefix is unfolded
  obtain ⟨g, hg⟩ : ∃ g : LoopState → LoopState, ∀ s, runFile O qy idx w none [fl] s = g s := ⟨_, fun _ => rfl⟩
  rw [hg]
  induction pre generalizing ls with
  | nil => simp only [List.nil_append, runFile.eq_1]; exact hg ls
  | cons x xs ih =>
    simp only [List.cons_append, runFile] at hstop ⊢
    by_cases hr : x.readable = true
    · simp only [hr] at hstop ⊢
      simp at hstop ⊢
      cases hx : executeLine O qy idx w ls.es x.line with
      | ok p =>
        obtain ⟨es1, lo1⟩ := p
        simp only [hx] at hstop ⊢
        by_cases hl : lo1.reachedLimit = true
        · simp [hl] at hstop
        · simp only [hl] at hstop ⊢
          exact ih _ hstop
      | error k => simp [hx] at hstop
      | panic s => simp [hx] at hstop
      | oracleMissing s => simp [hx] at hstop
    · simp [hr] at hstop

/-- C11 for non-aggregate statements: the records emitted for the k-th line are exactly the records by which
the batch output over the first k lines extends the batch output over the first k−1 lines -/
theorem select_incremental_eq_batch_extension (O : Oracles) (qy : Query) (idx : JoinIndex) (w : Bool)
    (pre : List FileLine) (fl : FileLine) (hr : fl.readable = true)
    (hstop : (runFile O qy idx w none pre {}).stop = false)
    (es' : EngineState) (lo : LineOut)
    (hx : executeLine O qy idx w (runFile O qy idx w none pre {}).es fl.line = .ok (es', lo)) :
    (runFile O qy idx w none (pre ++ [fl]) {}).out.printed =
      (runFile O qy idx w none pre {}).out.printed ++ (match lo.result with
        | some r => printResult r false
        | none => []) := by
  rw [runFile_append O qy idx w pre fl {} hstop]
  exact batch_line_extends O qy idx w fl _ es' lo hr hx

end Sqlgrep.Props.C11
