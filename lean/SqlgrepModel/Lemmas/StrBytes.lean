import SqlgrepModel.Model.Eval
import SqlgrepModel.Lemmas.ParseLit
/-
Bridges between Lean's `String` (in which the model writes `display`, the names of `date_trunc` parts and the
literals `true`/`false`) and the byte lists the model computes with:

* `strBytes_ofList`: `strBytes (String.ofList cs) = Utf8.encode cs` — Lean's UTF-8 encoder and the project's are one
  function (so `strBytes` of any `String` is the project's encoding of its characters);
* `strBytes_toString_int`: the bytes of `toString (n : Int)` are `Lit.renderInt n`, the canonical decimal rendering
  C01 proves `i64::from_str` reads back;
* `parseI64_eq`: the evaluator's `parseI64` (Model/Eval.lean) and the extraction model's `Lit.parseI64`
  (Model/ParseLit.lean) are the same function.
-/
namespace Sqlgrep

/-! ### `ByteArray.toList` -/

theorem byteArray_size_eq (bs : ByteArray) : bs.size = bs.data.toList.length := by
  cases bs; simp [ByteArray.size]

theorem byteArray_get!_eq (bs : ByteArray) (i : Nat) (hi : i < bs.data.toList.length) : bs.get! i = bs.data.toList[i] := by
  cases bs with
  | mk a =>
    simp only [ByteArray.get!]
    simp at hi
    simp [hi]

theorem byteArray_toList_loop (bs : ByteArray) : ∀ (k i : Nat) (r : List UInt8), bs.size - i = k →
    ByteArray.toList.loop bs i r = r.reverse ++ bs.data.toList.drop i := by
  intro k
  induction k with
  | zero =>
    intro i r h
    rw [ByteArray.toList.loop]
    have : ¬ i < bs.size := by omega
    simp only [this, if_false]
    have : bs.data.toList.drop i = [] := by
      apply List.drop_eq_nil_of_le
      rw [← byteArray_size_eq]; omega
    rw [this]; simp
  | succ k ih =>
    intro i r h
    rw [ByteArray.toList.loop]
    have hi : i < bs.size := by omega
    simp only [hi, if_true]
    rw [ih (i+1) _ (by omega)]
    simp only [List.reverse_cons, List.append_assoc, List.singleton_append]
    congr 1
    have hi' : i < bs.data.toList.length := by rw [← byteArray_size_eq]; exact hi
    rw [List.drop_eq_getElem_cons hi']
    congr 1
    exact byteArray_get!_eq bs i hi'

theorem byteArray_toList_eq (bs : ByteArray) : bs.toList = bs.data.toList := by
  unfold ByteArray.toList
  rw [byteArray_toList_loop bs _ 0 [] rfl]; simp

theorem toByteArray_toList (l : List UInt8) : l.toByteArray.toList = l := by
  rw [byteArray_toList_eq, List.data_toByteArray]

/-! ### Lean's UTF-8 encoder is the project's -/

theorem char_toNat_lt (c : Char) : c.toNat < 0x110000 := by
  have h := c.valid
  unfold UInt32.isValidChar Nat.isValidChar at h
  show c.val.toNat < 0x110000
  omega

theorem utf8EncodeChar_eq (c : Char) : (String.utf8EncodeChar c).map UInt8.toNat = Utf8.encodeChar c := by
  have hlt := char_toNat_lt c
  unfold String.utf8EncodeChar Utf8.encodeChar
  have hv : c.val.toNat = c.toNat := rfl
  simp only [hv]
  generalize c.toNat = n at *
  by_cases h1 : n ≤ 127
  · have h1' : n < 0x80 := by omega
    simp only [h1, h1', if_true, List.map_cons, List.map_nil, UInt8.toNat_ofNat']
    congr 1; omega
  · have h1' : ¬ n < 0x80 := by omega
    by_cases h2 : n ≤ 2047
    · have h2' : n < 0x800 := by omega
      simp only [h1, h1', h2, h2', if_true, if_false, List.map_cons, List.map_nil, UInt8.toNat_ofNat']
      congr 1; omega; congr 1; omega
    · have h2' : ¬ n < 0x800 := by omega
      by_cases h3 : n ≤ 65535
      · have h3' : n < 0x10000 := by omega
        simp only [h1, h1', h2, h2', h3, h3', if_true, if_false, List.map_cons, List.map_nil, UInt8.toNat_ofNat']
        congr 1; omega; congr 1; omega; congr 1; omega
      · have h3' : ¬ n < 0x10000 := by omega
        simp only [h1, h1', h2, h2', h3, h3', if_false, List.map_cons, List.map_nil, UInt8.toNat_ofNat']
        congr 1; omega; congr 1; omega; congr 1; omega; congr 1; omega

/-- the bytes of a Lean `String` built from characters are the project's UTF-8 encoding of those characters -/
theorem strBytes_ofList (cs : List Char) : strBytes (String.ofList cs) = Utf8.encode cs := by
  unfold strBytes String.toUTF8
  rw [String.toByteArray_ofList]
  unfold List.utf8Encode
  rw [toByteArray_toList]
  unfold Utf8.encode
  induction cs with
  | nil => rfl
  | cons c cs ih =>
    simp only [List.flatMap_cons, List.map_append, ih, utf8EncodeChar_eq]

theorem strBytes_append (a b : String) : strBytes (a ++ b) = strBytes a ++ strBytes b := by
  unfold strBytes String.toUTF8
  rw [String.toByteArray_append, byteArray_toList_eq, byteArray_toList_eq, byteArray_toList_eq]
  simp

theorem encode_ascii (cs : List Char) (h : ∀ c ∈ cs, c.toNat < 128) : Utf8.encode cs = cs.map Char.toNat := by
  unfold Utf8.encode
  induction cs with
  | nil => rfl
  | cons c cs ih =>
    have hc := h c List.mem_cons_self
    have : Utf8.encodeChar c = [c.toNat] := by
      unfold Utf8.encodeChar
      simp only [show c.toNat < 0x80 from hc, if_true]
    simp only [List.flatMap_cons, List.map_cons, this, List.singleton_append]
    rw [ih (fun c' hc' => h c' (List.mem_cons_of_mem _ hc'))]

/-- the bytes of any Lean `String` are the project's UTF-8 encoding of its characters (closed strings: `decide`) -/
theorem strBytes_lit (s : String) : strBytes s = Utf8.encode s.toList := by
  rw [← strBytes_ofList, String.ofList_toList]

/-! ### decimal rendering -/

theorem digitChar_toNat (d : Nat) (h : d < 10) : (Nat.digitChar d).toNat = 48 + d := by
  have : d = 0 ∨ d = 1 ∨ d = 2 ∨ d = 3 ∨ d = 4 ∨ d = 5 ∨ d = 6 ∨ d = 7 ∨ d = 8 ∨ d = 9 := by omega
  rcases this with h | h | h | h | h | h | h | h | h | h <;> subst h <;> rfl

theorem toDigits_step (n : Nat) (h : ¬ n < 10) :
    Nat.toDigits 10 n = Nat.toDigits 10 (n / 10) ++ [Nat.digitChar (n % 10)] := by
  have h1 := @Nat.toDigits_append_toDigits 10 (n / 10) (n % 10) (by decide) (by omega) (by omega)
  rw [Nat.toDigits_of_lt_base (show n % 10 < 10 by omega)] at h1
  rw [h1]
  congr 1
  omega

/-- the characters of `Nat.repr n` are ASCII digits: as bytes, the canonical decimal rendering -/
theorem toDigits_render (n : Nat) : (Nat.toDigits 10 n).map Char.toNat = Lit.renderNat n := by
  induction n using Lit.renderNat.induct with
  | case1 n h =>
    rw [Lit.renderNat]
    simp only [h, if_true]
    rw [Nat.toDigits_of_lt_base h]
    simp only [List.map_cons, List.map_nil, digitChar_toNat n h]
  | case2 n h ih =>
    rw [Lit.renderNat]
    simp only [h, if_false]
    rw [toDigits_step n h, List.map_append, ih]
    simp only [List.map_cons, List.map_nil, digitChar_toNat (n % 10) (by omega)]

theorem toDigits_ascii (n : Nat) : ∀ c ∈ Nat.toDigits 10 n, c.toNat < 128 := by
  intro c hc
  have h1 : c.toNat ∈ (Nat.toDigits 10 n).map Char.toNat := List.mem_map_of_mem hc
  rw [toDigits_render] at h1
  have := (Lit.renderNat_spec n).2.1 _ h1
  simp only [Lit.isDigit, Bool.and_eq_true, decide_eq_true_eq] at this
  omega

theorem strBytes_natRepr (n : Nat) : strBytes (Nat.repr n) = Lit.renderNat n := by
  unfold Nat.repr
  rw [strBytes_ofList, encode_ascii _ (toDigits_ascii n), toDigits_render]

/-- `Display for i64` as the model writes it (`toString`) is the canonical rendering `Lit.renderInt` -/
theorem strBytes_toString_int (n : Int) : strBytes (toString n) = Lit.renderInt n := by
  show strBytes (Int.repr n) = _
  unfold Lit.renderInt
  cases n with
  | ofNat m =>
    have : ¬ (Int.ofNat m < 0) := by simp
    simp only [this, if_false, Int.repr]
    exact strBytes_natRepr m
  | negSucc m =>
    have : Int.negSucc m < 0 := Int.negSucc_lt_zero m
    simp only [this, if_true, Int.repr]
    rw [strBytes_append, strBytes_natRepr]
    have e : strBytes "-" = [45] := by rw [strBytes_lit]; decide
    rw [e]
    rfl

/-! ### one integer parser -/

theorem parseDigits_some (s : List Nat) (a : Nat) :
    parseDigits s (some a) = if s.all Lit.isDigit then some (s.foldl (fun acc b => acc * 10 + (b - 48)) a) else none := by
  induction s generalizing a with
  | nil => rfl
  | cons b rest ih =>
    unfold parseDigits digitVal
    by_cases hb : (48 ≤ b && b ≤ 57) = true
    · have hd : Lit.isDigit b = true := by
        simp only [Bool.and_eq_true, decide_eq_true_eq] at hb
        simp only [Lit.isDigit, Bool.and_eq_true, decide_eq_true_eq]; exact hb
      simp only [hb, if_true, Option.getD_some, ih, List.all_cons, hd, Bool.true_and, List.foldl_cons]
    · have hd : Lit.isDigit b = false := by
        simp only [Bool.and_eq_true, decide_eq_true_eq] at hb
        simp only [Lit.isDigit, Bool.and_eq_false_iff, decide_eq_false_iff_not]; omega
      simp only [hb, if_false, List.all_cons, hd, Bool.false_and, Bool.false_eq_true]

theorem parseDigits_eq (s : List Nat) : parseDigits s none = Lit.parseDigits s := by
  cases s with
  | nil => rfl
  | cons b rest =>
    unfold parseDigits digitVal Lit.parseDigits Lit.digitsVal
    by_cases hb : (48 ≤ b && b ≤ 57) = true
    · have hd : Lit.isDigit b = true := by
        simp only [Bool.and_eq_true, decide_eq_true_eq] at hb
        simp only [Lit.isDigit, Bool.and_eq_true, decide_eq_true_eq]; exact hb
      simp only [hb, if_true, Option.getD_none, parseDigits_some, List.isEmpty_cons, Bool.false_eq_true, if_false,
        List.all_cons, hd, Bool.true_and, List.foldl_cons]
    · have hd : Lit.isDigit b = false := by
        simp only [Bool.and_eq_true, decide_eq_true_eq] at hb
        simp only [Lit.isDigit, Bool.and_eq_false_iff, decide_eq_false_iff_not]; omega
      simp only [hb, if_false, List.isEmpty_cons, Bool.false_eq_true, List.all_cons, hd, Bool.false_and]

theorem inI64_eq (n : Int) : inI64 n = Lit.inI64 n := by
  unfold inI64 Lit.inI64 i64Min i64Max Lit.i64Min Lit.i64Max
  rw [Bool.eq_iff_iff]

/-- the evaluator's `i64::from_str` and the extraction model's are one function -/
theorem parseI64_eq (s : List Nat) : parseI64 s = Lit.parseI64 s := by
  unfold parseI64 Lit.parseI64
  split <;> simp only [parseDigits_eq] <;> cases Lit.parseDigits _ <;>
    (try simp only [Option.bind_none, Option.bind_some, checked, inI64_eq])

/-- a rendered `i64` is read back unchanged by the evaluator's parser -/
theorem parseI64_toString (n : Int) (h : inI64 n = true) : parseI64 (strBytes (toString n)) = some n := by
  rw [strBytes_toString_int, parseI64_eq]
  apply Lit.parseI64_render
  unfold inI64 i64Min i64Max at h
  simp only [Bool.and_eq_true, decide_eq_true_eq] at h
  omega

end Sqlgrep
