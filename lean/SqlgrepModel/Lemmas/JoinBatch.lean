import SqlgrepModel.Lemmas.JoinRefine
import SqlgrepModel.Lemmas.InterruptRun
/-
Helper lemmas for C05: whole batch runs. The batch loop of the model over the loaded hash index prints what the
specification's loop over the nested-loop rows prints (`Spec.Join.batch`).
-/
namespace Sqlgrep
open Spec.Join

theorem reachedLimit_select_nolimit (qy : Query) (q : SelectStmt) (hq : qy.stmt = .select q) (hlim : q.limit = none)
    (es : EngineState) : reachedLimit qy es = false := by
  simp [reachedLimit, hq, hlim]

theorem reachedLimit_aggregate (qy : Query) (q : AggStmt) (hq : qy.stmt = .aggregate q) (es : EngineState) :
    reachedLimit qy es = false := by
  simp [reachedLimit, hq]

/-- one readable line that neither fails nor reaches a limit: the loop goes on with the next line -/
theorem runFiles_cons_cons (O : Oracles) (qy : Query) (idx : JoinIndex) (w : Bool) (fl : FileLine) (f : List FileLine)
    (rest : List (List FileLine)) (ls : LoopState) (es1 : EngineState) (lo1 : LineOut)
    (hr : fl.readable = true) (hx : executeLine O qy idx w ls.es fl.line = .ok (es1, lo1))
    (hl : lo1.reachedLimit = false) (hst : ls.stop = false) (hrl : ∀ es, reachedLimit qy es = false) :
    runFiles O qy idx w none ((fl :: f) :: rest) ls =
      runFiles O qy idx w none (f :: rest)
        { es := es1, consumed := ls.consumed + 1, stop := false,
          out := { ls.out with totalLines := ls.out.totalLines + 1, printed := ls.out.printed ++ (match lo1.result with
            | some r => printResult r false
            | none => []) } } := by
  simp only [runFiles, hst, hrl, Bool.or_self, Bool.false_eq_true, if_false]
  have h2 : ((none : Option Nat) == some ls.consumed) = false := by simp
  conv => lhs; simp only [runFile, h2, hr, hx, hl, Bool.not_true, Bool.false_eq_true, if_false]
  simp only [hst]
  rfl

theorem runFiles_nil_cons (O : Oracles) (qy : Query) (idx : JoinIndex) (w : Bool)
    (rest : List (List FileLine)) (ls : LoopState) (hst : ls.stop = false) (hrl : ∀ es, reachedLimit qy es = false) :
    runFiles O qy idx w none ([] :: rest) ls = runFiles O qy idx w none rest ls := by
  simp only [runFiles, runFile, hst, hrl, Bool.or_self, Bool.false_eq_true, if_false]

theorem updateLimit_none_jb (b : Bool) (es : EngineState) (r : Option RowOut) :
    updateLimit b none es r = ({ es with numOut := es.numOut + (match r with
      | some out => out.rows.length
      | none => 0) }, { result := r, reachedLimit := false }) := by
  unfold updateLimit
  cases r <;> rfl

/-- the batch loop of a non-aggregate statement without LIMIT over a join = the specification's loop -/
theorem runFiles_select_spec (O : Oracles) (qy : Query) (q : SelectStmt) (j : JoinInfo) (idx : JoinIndex)
    (jl : List Line) (hq : qy.stmt = .select q) (hlim : q.limit = none) (hj : qy.join = some j)
    (hcol : (indexOf? qy.table.columns j.joinerColumn).isSome = true) (hl : loadJoin j jl = .ok idx)
    (files : List (List FileLine)) :
    ∀ (ls : LoopState) (pr : List String),
      (∀ f ∈ files, ∀ fl ∈ f, fl.readable = true) → ls.stop = false →
      selectLoop O q (rowsOf qy j (admittedRows jl) true) ((files.flatten.map (·.line)).filter admitted) ls.es.seen = .ok pr →
      (runFiles O qy idx true none files ls).out =
        { ls.out with printed := ls.out.printed ++ pr, totalLines := ls.out.totalLines + files.flatten.length } := by
  have hrl := reachedLimit_select_nolimit qy q hq hlim
  obtain ⟨ki, hki⟩ := Option.isSome_iff_exists.1 hcol
  induction files with
  | nil =>
    intro ls pr _ _ h
    simp only [List.flatten_nil, List.map_nil, List.filter_nil, selectLoop, Outcome.ok.injEq] at h
    subst h
    simp [runFiles]
  | cons f rest ihf =>
    induction f with
    | nil =>
      intro ls pr hr hst h
      rw [runFiles_nil_cons O qy idx true rest ls hst hrl]
      simp only [List.flatten_cons, List.nil_append] at h ⊢
      exact ihf ls pr (fun f hf => hr f (List.mem_cons_of_mem _ hf)) hst h
    | cons fl f' ih =>
      intro ls pr hr hst h
      have hfl : fl.readable = true := hr (fl :: f') (by simp) fl (by simp)
      have hr' : ∀ f ∈ f' :: rest, ∀ fl ∈ f, fl.readable = true := by
        intro g hg x hx
        rcases List.mem_cons.1 hg with hg | hg
        · rw [hg] at hx; exact hr (fl :: f') (by simp) x (List.mem_cons_of_mem _ hx)
        · exact hr g (List.mem_cons_of_mem _ hg) x hx
      simp only [List.flatten_cons, List.cons_append, List.map_cons, List.filter_cons] at h
      by_cases ha : admitted fl.line = true
      · simp only [ha, if_true, selectLoop] at h
        -- the specification's step for this line
        cases hs : selectEnvs O q (rowsOf qy j (admittedRows jl) true fl.line) ls.es.seen none with
        | ok p =>
          obtain ⟨seen', r⟩ := p
          simp only [hs, bind, Outcome.bind] at h
          cases hm : selectLoop O q (rowsOf qy j (admittedRows jl) true)
              (List.filter admitted (List.map (fun x => x.line) (f' ++ rest.flatten))) seen' with
          | ok more =>
            simp only [hm, pure, Outcome.ok.injEq] at h
            have hx : executeLine O qy idx true ls.es fl.line =
                .ok (updateLimit true none { ls.es with seen := seen' } r) := by
              unfold executeLine
              have hadm : anyResult fl.line.row = true := ha
              simp only [hq, hadm, Bool.not_true, Bool.false_eq_true, if_false, hlim]
              rw [lineEnvs_eq_rowsOf qy j jl idx true fl.line ki hj hki hl]
              simp only [bind, Outcome.bind, hs, pure]
            rw [updateLimit_none_jb] at hx
            rw [runFiles_cons_cons O qy idx true fl f' rest ls _ _ hfl hx rfl hst hrl]
            rw [ih _ more hr' rfl (by rw [List.flatten_cons]; exact hm), ← h]
            simp only [List.flatten_cons, List.length_append, List.length_cons, List.append_assoc]
            congr 1
            omega
          | error e => simp only [hm, reduceCtorEq] at h
          | panic s => simp only [hm, reduceCtorEq] at h
          | oracleMissing s => simp only [hm, reduceCtorEq] at h
        | error e => simp [hs, bind, Outcome.bind] at h
        | panic s => simp [hs, bind, Outcome.bind] at h
        | oracleMissing s => simp [hs, bind, Outcome.bind] at h
      · simp only [ha, Bool.false_eq_true, if_false] at h
        have hx : executeLine O qy idx true ls.es fl.line = .ok (updateLimit true none ls.es none) := by
          unfold executeLine
          have hadm : anyResult fl.line.row = false := by
            cases hh : anyResult fl.line.row
            · rfl
            · exact absurd hh ha
          simp only [hq, hadm, Bool.not_false, if_true, hlim]
        rw [updateLimit_none_jb] at hx
        rw [runFiles_cons_cons O qy idx true fl f' rest ls _ _ hfl hx rfl hst hrl]
        rw [ih _ pr hr' rfl (by rw [List.flatten_cons]; exact h)]
        simp only [List.flatten_cons, List.length_append, List.length_cons, List.append_nil]
        congr 1
        omega

/-- the batch loop of an aggregate statement over a join = the specification's loop (update only) -/
theorem runFiles_agg_spec (O : Oracles) (qy : Query) (q : AggStmt) (j : JoinInfo) (idx : JoinIndex)
    (jl : List Line) (hq : qy.stmt = .aggregate q) (hj : qy.join = some j)
    (hcol : (indexOf? qy.table.columns j.joinerColumn).isSome = true) (hl : loadJoin j jl = .ok idx)
    (files : List (List FileLine)) :
    ∀ (ls : LoopState) (st : AggState),
      (∀ f ∈ files, ∀ fl ∈ f, fl.readable = true) → ls.stop = false →
      aggLoop O q (rowsOf qy j (admittedRows jl) false) ((files.flatten.map (·.line)).filter admitted) ls.es.agg = .ok st →
      (runFiles O qy idx false none files ls).es.agg = st ∧
      (runFiles O qy idx false none files ls).out = { ls.out with totalLines := ls.out.totalLines + files.flatten.length } := by
  have hrl := reachedLimit_aggregate qy q hq
  obtain ⟨ki, hki⟩ := Option.isSome_iff_exists.1 hcol
  induction files with
  | nil =>
    intro ls st _ _ h
    simp only [List.flatten_nil, List.map_nil, List.filter_nil, aggLoop, Outcome.ok.injEq] at h
    subst h
    simp [runFiles]
  | cons f rest ihf =>
    induction f with
    | nil =>
      intro ls st hr hst h
      rw [runFiles_nil_cons O qy idx false rest ls hst hrl]
      simp only [List.flatten_cons, List.nil_append] at h ⊢
      exact ihf ls st (fun f hf => hr f (List.mem_cons_of_mem _ hf)) hst h
    | cons fl f' ih =>
      intro ls st hr hst h
      have hfl : fl.readable = true := hr (fl :: f') (by simp) fl (by simp)
      have hr' : ∀ f ∈ f' :: rest, ∀ fl ∈ f, fl.readable = true := by
        intro g hg x hx
        rcases List.mem_cons.1 hg with hg | hg
        · rw [hg] at hx; exact hr (fl :: f') (by simp) x (List.mem_cons_of_mem _ hx)
        · exact hr g (List.mem_cons_of_mem _ hg) x hx
      simp only [List.flatten_cons, List.cons_append, List.map_cons, List.filter_cons] at h
      by_cases ha : admitted fl.line = true
      · simp only [ha, if_true, aggLoop] at h
        cases hs : aggEnvs O q (rowsOf qy j (admittedRows jl) false fl.line) ls.es.agg false with
        | ok p =>
          obtain ⟨st', u⟩ := p
          simp only [hs, bind, Outcome.bind] at h
          have hx : executeLine O qy idx false ls.es fl.line =
              .ok ({ ls.es with agg := st' }, { result := none, reachedLimit := false }) := by
            unfold executeLine
            have hadm : anyResult fl.line.row = true := ha
            simp only [hq, hadm, Bool.not_true, Bool.false_eq_true, if_false]
            rw [lineEnvs_eq_rowsOf qy j jl idx false fl.line ki hj hki hl]
            simp only [bind, Outcome.bind, hs, pure]
          rw [runFiles_cons_cons O qy idx false fl f' rest ls _ _ hfl hx rfl hst hrl]
          refine ⟨(ih _ st hr' (by rfl) (by rw [List.flatten_cons]; exact h)).1, ?_⟩
          rw [(ih _ st hr' (by rfl) (by rw [List.flatten_cons]; exact h)).2]
          simp only [List.flatten_cons, List.length_append, List.length_cons, List.append_nil]
          congr 1
          omega
        | error e => simp [hs, bind, Outcome.bind] at h
        | panic s => simp [hs, bind, Outcome.bind] at h
        | oracleMissing s => simp [hs, bind, Outcome.bind] at h
      · simp only [ha, Bool.false_eq_true, if_false] at h
        have hx : executeLine O qy idx false ls.es fl.line = .ok (ls.es, { result := none, reachedLimit := false }) := by
          unfold executeLine
          have hadm : anyResult fl.line.row = false := by
            cases hh : anyResult fl.line.row
            · rfl
            · exact absurd hh ha
          simp only [hq, hadm, Bool.not_false, if_true, Bool.false_eq_true, if_false]
        rw [runFiles_cons_cons O qy idx false fl f' rest ls _ _ hfl hx rfl hst hrl]
        refine ⟨(ih _ st hr' (by rfl) (by rw [List.flatten_cons]; exact h)).1, ?_⟩
        rw [(ih _ st hr' (by rfl) (by rw [List.flatten_cons]; exact h)).2]
        simp only [List.flatten_cons, List.length_append, List.length_cons, List.append_nil]
        congr 1
        omega

theorem finalResult_agg_only (O : Oracles) (q : AggStmt) (es : EngineState) :
    finalResult O q es = finalResult O q { agg := es.agg } := rfl

theorem loadJoinFile_readable (j : JoinInfo) (joined : List FileLine) (kj : Nat)
    (hkj : indexOf? j.joined.columns j.joinedColumn = some kj)
    (hr : joined.any (fun fl => !fl.readable) = false) :
    ∃ idx, loadJoinFile j joined = .ok idx ∧ loadJoin j (joined.map (·.line)) = .ok idx := by
  unfold loadJoinFile
  simp only [hkj, Option.isNone_some, Bool.false_eq_true, if_false, hr]
  unfold loadJoin
  simp only [hkj]
  exact ⟨_, rfl, rfl⟩

/-- whenever the specification answers a batch run, the model's run is that answer -/
theorem batch_spec_eq_runBatch (O : Oracles) (qy : Query) (joined : List FileLine) (files : List (List FileLine))
    (ro : RunOut) (cls : String) (h : Spec.Join.batch O qy joined files = some (ro, cls)) :
    runBatch O qy joined files none = ro := by
  unfold Spec.Join.batch at h
  cases hj : qy.join with
  | none => simp [hj] at h
  | some j =>
    simp only [hj] at h
    by_cases hbad : (joined.any (fun fl => !fl.readable) || files.any (fun f => f.any (fun fl => !fl.readable))) = true
    · simp [hbad] at h
    · simp only [hbad, Bool.false_eq_true, if_false] at h
      have hb1 : joined.any (fun fl => !fl.readable) = false := by
        cases hh : joined.any (fun fl => !fl.readable)
        · rfl
        · simp [hh] at hbad
      have hb2 : ∀ f ∈ files, ∀ fl ∈ f, fl.readable = true := by
        intro f hf fl hfl
        cases hh : fl.readable
        · exfalso; apply hbad
          have : files.any (fun f => f.any (fun fl => !fl.readable)) = true :=
            List.any_eq_true.2 ⟨f, hf, List.any_eq_true.2 ⟨fl, hfl, by simp [hh]⟩⟩
          simp [this]
        · rfl
      by_cases hmiss : ((indexOf? qy.table.columns j.joinerColumn).isNone || (indexOf? j.joined.columns j.joinedColumn).isNone) = true
      · simp only [hmiss, if_true, Option.some.injEq, Prod.mk.injEq] at h
        rw [← h.1]
        unfold runBatch setupJoin loadJoinFile
        simp only [hj]
        cases h1 : indexOf? qy.table.columns j.joinerColumn with
        | none => simp [failWith]
        | some ki =>
          cases h2 : indexOf? j.joined.columns j.joinedColumn with
          | none => simp [failWith]
          | some kj => simp [h1, h2] at hmiss
      · simp only [hmiss, Bool.false_eq_true, if_false] at h
        have hki : (indexOf? qy.table.columns j.joinerColumn).isSome = true := by
          cases hh : indexOf? qy.table.columns j.joinerColumn
          · simp [hh] at hmiss
          · rfl
        obtain ⟨kj, hkj⟩ : ∃ kj, indexOf? j.joined.columns j.joinedColumn = some kj := by
          cases hh : indexOf? j.joined.columns j.joinedColumn with
          | none => simp [hh] at hmiss
          | some kj => exact ⟨kj, rfl⟩
        obtain ⟨idx, hload, hl⟩ := loadJoinFile_readable j joined kj hkj hb1
        obtain ⟨ki, hki'⟩ := Option.isSome_iff_exists.1 hki
        have hidx : joinOutcome qy joined = .ok idx := by
          unfold joinOutcome setupJoin
          simp only [hj, hki', hload]
        rw [runBatch_eq_runWithIndex, hidx]
        cases hq : qy.stmt with
        | select q =>
          simp only [hq] at h
          by_cases hlim : q.limit.isSome = true
          · simp [hlim] at h
          · simp only [hlim, Bool.false_eq_true, if_false] at h
            have hlim' : q.limit = none := by
              cases hh : q.limit
              · rfl
              · simp [hh] at hlim
            cases hs : selectLoop O q (rowsOf qy j (admittedRows (joined.map (·.line))) true)
                ((files.flatten.map (·.line)).filter admitted) [] with
            | ok printed =>
              simp only [hs, Option.some.injEq, Prod.mk.injEq] at h
              rw [runWithIndex_select O qy q hq, ← h.1]
              have := runFiles_select_spec O qy q j idx (joined.map (·.line)) hq hlim' hj hki hl files {} printed hb2 rfl hs
              rw [this, List.length_map]
              simp
            | error e => simp only [hs, reduceCtorEq] at h
            | panic s => simp only [hs, reduceCtorEq] at h
            | oracleMissing s => simp only [hs, reduceCtorEq] at h
        | aggregate q =>
          simp only [hq] at h
          cases hs : aggLoop O q (rowsOf qy j (admittedRows (joined.map (·.line))) false)
              ((files.flatten.map (·.line)).filter admitted) {} with
          | ok st =>
            simp only [hs] at h
            cases hf : finalResult O q { agg := st } with
            | ok r =>
              simp only [hf, Option.some.injEq, Prod.mk.injEq] at h
              rw [← h.1]
              obtain ⟨i1, i2⟩ := runFiles_agg_spec O qy q j idx (joined.map (·.line)) hq hj hki hl files {} st hb2 rfl hs
              simp only [runWithIndex, hq, Bool.not_true]
              rw [finalResult_agg_only, i1, hf, i2, List.length_map]
              simp [hasFailed]
            | error e => simp only [hf, reduceCtorEq] at h
            | panic s => simp only [hf, reduceCtorEq] at h
            | oracleMissing s => simp only [hf, reduceCtorEq] at h
          | error e => simp only [hs, reduceCtorEq] at h
          | panic s => simp only [hs, reduceCtorEq] at h
          | oracleMissing s => simp only [hs, reduceCtorEq] at h

end Sqlgrep
