// Generators of table definitions, input lines and SELECT / aggregate statements (as SQL text, parsed by the
// real parser), serialisation of the lowered statements for the Lean engine model, and runners.
use std::collections::BTreeSet;

use sqlgrep::data_model::{TableDefinition, Tables};
use sqlgrep::model::*;
use sqlgrep::Statement;

use crate::exprs::*;
use crate::util::{hex, hexs, value_sexp, Rng};

pub const MAIN_DEF: &str = "CREATE TABLE t(line = '^([a-z]+)?;(-?[0-9]+)?;(-?[0-9]+)?;([^;]+)?;(?:~|([^;]*));(!)?$', line[1] => k TEXT, line[2] => v INT, line[3] => w INT, line[4] => r REAL, line[5] => s TEXT);";
pub const MAIN_DEF_BOOL: &str = "CREATE TABLE t(line = '^([a-z]+)?;(-?[0-9]+)?;(-?[0-9]+)?;([^;]+)?;(?:~|([^;]*));(!)?$', line[1] => k TEXT, line[2] => v INT NOT NULL, line[3] => w INT, line[4] => r REAL, line[5] => s TEXT DEFAULT 'dflt', line[6] => b BOOLEAN);";
pub const JOIN_DEF: &str = "CREATE TABLE u(row = '^#([a-z]+)?;(-?[0-9]+)?;([^;]+)?$', row[1] => k TEXT, row[2] => v INT, row[3] => y TEXT);";

pub struct Schema {
    pub defs: String,
    pub has_bool: bool,
}

pub fn gen_schema(rng: &mut Rng) -> Schema {
    let has_bool = rng.chance(1, 3);
    Schema { defs: format!("{}\n{}", if has_bool { MAIN_DEF_BOOL } else { MAIN_DEF }, JOIN_DEF), has_bool }
}

const KEYS: &[&str] = &["a", "b", "c", "ab", "z"];
const REALS: &[&str] = &["0.5", "1.5", "-2.25", "100", "0", "-0.0", "3", "1e3", "nan", "inf", "x"];
// column s is `(?:~|([^;]*))`: the field `~` is NULL, every other field — the EMPTY one included — is that TEXT
const TEXTS2: &[&str] = &["x", "y", "hello", "é", "q q", "10", "'", "a,b", "", ""];

pub fn gen_int_field(rng: &mut Rng, extreme: bool) -> String {
    match rng.below(if extreme { 8 } else { 6 }) {
        0 | 1 | 2 => rng.range(-3, 6).to_string(),
        3 | 4 => rng.range(-50, 50).to_string(),
        5 => rng.range(-100000, 100000).to_string(),
        6 => (*rng.pick(&["9223372036854775807", "-9223372036854775808", "9223372036854775806", "4611686018427387904", "3037000500"])).to_owned(),
        _ => (*rng.pick(&["9223372036854775808", "99999999999999999999", "-", "1x"])).to_owned(),
    }
}

/// one input line for table t (sometimes noise that is not admitted)
pub fn gen_line(rng: &mut Rng, null_pct: u64, extreme: bool) -> String {
    if rng.chance(1, 12) {
        return (*rng.pick(&["", "garbage", ";;;;;", "a;b;c", ";;;;;;;", "#a;1;x", "A;1;2;3;4;"])).to_owned();
    }
    let f = |rng: &mut Rng, s: String| if rng.chance(null_pct, 100) { String::new() } else { s };
    let k = (*rng.pick(KEYS)).to_owned();
    let v = gen_int_field(rng, extreme);
    let w = gen_int_field(rng, extreme);
    let r = (*rng.pick(REALS)).to_owned();
    let s = (*rng.pick(TEXTS2)).to_owned();
    let s = if rng.chance(null_pct, 100) { "~".to_owned() } else { s };
    format!("{};{};{};{};{};{}", f(rng, k), f(rng, v), f(rng, w), f(rng, r), s, if rng.chance(1, 2) { "!" } else { "" })
}

pub fn gen_join_line(rng: &mut Rng) -> String {
    if rng.chance(1, 10) {
        return (*rng.pick(&["", "#", "nope", "#;;"])).to_owned();
    }
    let f = |rng: &mut Rng, s: String| if rng.chance(15, 100) { String::new() } else { s };
    let k = (*rng.pick(KEYS)).to_owned();
    let v = rng.range(-3, 6).to_string();
    let y = (*rng.pick(TEXTS2)).to_owned();
    format!("#{};{};{}", f(rng, k), f(rng, v), f(rng, y))
}

// ---------- SQL text generation ----------

#[derive(Clone, Copy, PartialEq)]
pub enum Ty { Int, Real, Text, Bool }

fn col_of(rng: &mut Rng, t: Ty, sch: &Schema, joined: bool) -> String {
    let c = match t {
        Ty::Int => *rng.pick(&["v", "w"]),
        Ty::Real => "r",
        Ty::Text => *rng.pick(&["k", "s"]),
        Ty::Bool => if sch.has_bool { "b" } else { "(v IS NOT NULL)" },
    };
    if joined && rng.chance(1, 3) {
        match t {
            Ty::Int => (*rng.pick(&["u.v", "t.v", "w"])).to_owned(),
            Ty::Text => (*rng.pick(&["u.k", "y", "t.k", "s"])).to_owned(),
            _ => c.to_owned(),
        }
    } else {
        c.to_owned()
    }
}

fn sql_lit(rng: &mut Rng, t: Ty) -> String {
    match t {
        Ty::Int => (*rng.pick(&["0", "1", "2", "5", "10", "100", "9223372036854775807", "3037000500"])).to_owned(),
        Ty::Real => (*rng.pick(&["0.5", "1.5", "2.0", "100.25", "0.0"])).to_owned(),
        Ty::Text => format!("'{}'", rng.pick(&["a", "b", "x", "hello", "", "q q", "10"])),
        Ty::Bool => (*rng.pick(&["true", "false"])).to_owned(),
    }
}

/// a condition (WHERE, operand of AND / OR, WHEN clause): BOOLEAN-typed, but one in fourteen is an INT / TEXT / REAL
/// expression — a value without a truth value, which must make the run report an error wherever it is evaluated (D69)
pub fn gen_sql_condition(rng: &mut Rng, depth: usize, sch: &Schema, joined: bool) -> String {
    if rng.chance(1, 14) {
        let t = *rng.pick(&[Ty::Int, Ty::Int, Ty::Text, Ty::Real]);
        return gen_sql_expr(rng, depth.min(1), t, sch, joined);
    }
    gen_sql_expr(rng, depth, Ty::Bool, sch, joined)
}

pub fn gen_sql_expr(rng: &mut Rng, depth: usize, t: Ty, sch: &Schema, joined: bool) -> String {
    if depth == 0 || rng.chance(1, 4) {
        if rng.chance(1, 16) { return "NULL".to_owned(); }
        return if rng.chance(3, 5) { col_of(rng, t, sch, joined) } else { sql_lit(rng, t) };
    }
    let d = depth - 1;
    let mut sub = |rng: &mut Rng, t: Ty| gen_sql_expr(rng, d, t, sch, joined);
    let cond = |rng: &mut Rng| gen_sql_condition(rng, d, sch, joined);
    match t {
        Ty::Int => match rng.below(8) {
            0 | 1 | 2 => format!("({} {} {})", sub(rng, Ty::Int), rng.pick(&["+", "-", "*", "/"]), sub(rng, Ty::Int)),
            3 => format!("abs({})", sub(rng, Ty::Int)),
            4 => format!("length({})", sub(rng, Ty::Text)),
            5 => format!("(CASE WHEN {} THEN {} ELSE {} END)", cond(rng), sub(rng, Ty::Int), sub(rng, Ty::Int)),
            6 => format!("greatest({}, {})", sub(rng, Ty::Int), sub(rng, Ty::Int)),
            _ => format!("(- {})", sub(rng, Ty::Int)),
        },
        Ty::Real => match rng.below(4) {
            0 | 1 => format!("({} {} {})", sub(rng, Ty::Real), rng.pick(&["+", "-", "*", "/"]), sub(rng, Ty::Real)),
            2 => format!("sqrt({})", sub(rng, Ty::Real)),
            _ => format!("least({}, {})", sub(rng, Ty::Real), sub(rng, Ty::Real)),
        },
        Ty::Text => match rng.below(4) {
            0 => format!("upper({})", sub(rng, Ty::Text)),
            1 => format!("lower({})", sub(rng, Ty::Text)),
            2 => format!("({})::text", sub(rng, Ty::Int)),
            _ => format!("(CASE WHEN {} THEN {} ELSE {} END)", cond(rng), sub(rng, Ty::Text), sub(rng, Ty::Text)),
        },
        Ty::Bool => match rng.below(9) {
            0 | 1 | 2 => {
                let ot = *rng.pick(&[Ty::Int, Ty::Int, Ty::Real, Ty::Text]);
                let (l, r) = if rng.chance(1, 6) { (sub(rng, Ty::Int), sub(rng, Ty::Real)) } else { (sub(rng, ot), sub(rng, ot)) };
                format!("({} {} {})", l, rng.pick(&["=", "!=", "<", "<=", ">", ">="]), r)
            }
            3 => format!("({} IS {}NULL)", sub(rng, *rng.clone().pick(&[Ty::Int, Ty::Text, Ty::Real])), if rng.chance(1, 2) { "NOT " } else { "" }),
            4 | 5 => format!("({} {} {})", cond(rng), rng.pick(&["AND", "OR"]), cond(rng)),
            // NOT over every kind of condition; half of the time over an IN / NOT IN test with a nullable operand or a NULL
            // member (where `NOT (x IN …)` and `x NOT IN …` differ: a lowering that folds the one into the other is visible)
            6 => if rng.chance(1, 2) {
                let (c, ot) = *rng.pick(&[("w", Ty::Int), ("k", Ty::Text), ("v", Ty::Int)]);
                format!("(NOT ({} {}IN ({}, {})))", c, if rng.chance(1, 3) { "NOT " } else { "" }, sql_lit(rng, ot), if rng.chance(1, 4) { "NULL".to_owned() } else { sql_lit(rng, ot) })
            } else { format!("(NOT {})", sub(rng, Ty::Bool)) },
            7 => {
                let ot = *rng.pick(&[Ty::Int, Ty::Text]);
                format!("({} {}IN ({}, {}))", sub(rng, ot), if rng.chance(1, 2) { "NOT " } else { "" }, sql_lit(rng, ot), if rng.chance(1, 5) { "NULL".to_owned() } else { sql_lit(rng, ot) })
            }
            _ => format!("regexp_matches({}, '{}')", sub(rng, Ty::Text), rng.pick(&["^a", "l+", "[0-9]"])),
        },
    }
}

pub struct GenQuery {
    pub text: String,
    pub is_aggregate: bool,
    pub joined: bool,
}

pub struct QueryOpts {
    pub allow_limit: bool,
    pub allow_distinct: bool,
    pub allow_join: bool,
    pub aggregate: Option<bool>, // None = either
}

fn any_ty(rng: &mut Rng) -> Ty { *rng.pick(&[Ty::Int, Ty::Int, Ty::Real, Ty::Text, Ty::Bool]) }

pub fn gen_query(rng: &mut Rng, sch: &Schema, opts: &QueryOpts, join_path: &str) -> GenQuery {
    let joined = opts.allow_join && rng.chance(1, 4);
    let aggregate = opts.aggregate.unwrap_or_else(|| rng.chance(1, 2));
    let distinct = opts.allow_distinct && rng.chance(1, 4);
    let mut q = String::from("SELECT ");
    if distinct { q.push_str("DISTINCT "); }
    let mut group_parts: Vec<String> = Vec::new();
    let mut having_pool: Vec<String> = Vec::new();
    if aggregate {
        let ngroup = rng.below(3);
        for _ in 0..ngroup {
            let t = *rng.pick(&[Ty::Text, Ty::Int, Ty::Text]);
            let part = if rng.chance(3, 4) { col_of(rng, t, sch, joined) } else { gen_sql_expr(rng, 1, t, sch, joined) };
            if !group_parts.contains(&part) { group_parts.push(part); }
        }
        let nitems = rng.below(4) + 1;
        let mut items = Vec::new();
        for _ in 0..nitems {
            if !group_parts.is_empty() && rng.chance(1, 3) {
                items.push(rng.pick(&group_parts).clone());
                continue;
            }
            let agg = gen_aggregate(rng, sch, joined);
            having_pool.push(agg.clone());
            let item = if rng.chance(1, 6) { format!("{} {} {}", agg, rng.pick(&["+", "*", "-"]), rng.pick(&["1", "2", "10"])) } else { agg };
            items.push(if rng.chance(1, 5) { format!("{} AS c{}", item, items.len()) } else { item });
        }
        q.push_str(&items.join(", "));
    } else {
        if rng.chance(1, 6) {
            q.push('*');
        } else {
            let n = rng.below(3) + 1;
            let mut items = Vec::new();
            for i in 0..n {
                let t = any_ty(rng);
                let e = if rng.chance(1, 2) { col_of(rng, t, sch, joined) } else { gen_sql_expr(rng, 2, t, sch, joined) };
                items.push(if rng.chance(1, 4) { format!("{} AS a{}", e, i) } else if rng.chance(1, 12) { "input".to_owned() } else { e });
            }
            q.push_str(&items.join(", "));
        }
    }
    q.push_str(" FROM t");
    // clauses in random order
    let mut clauses: Vec<String> = Vec::new();
    if joined {
        let on = if rng.chance(1, 2) { ("t.k", "u.k") } else { ("t.v", "u.v") };
        let (l, r) = if rng.chance(1, 2) { (on.0, on.1) } else { (on.1, on.0) };
        clauses.push(format!("{} JOIN u::'{}' ON {} = {}", if rng.chance(1, 3) { "OUTER" } else { "INNER" }, join_path, l, r));
    }
    if rng.chance(1, 2) {
        clauses.push(format!("WHERE {}", gen_sql_condition(rng, 2, sch, joined)));
    }
    if aggregate && !group_parts.is_empty() {
        clauses.push(format!("GROUP BY {}", group_parts.join(", ")));
    }
    if aggregate && rng.chance(2, 5) {
        let mut cond = gen_having(rng, sch, joined, &having_pool);
        if !group_parts.is_empty() && rng.chance(1, 4) {
            cond = format!("{} AND {} IS NOT NULL", cond, group_parts[0]);
        }
        clauses.push(format!("HAVING {}", cond));
    }
    if opts.allow_limit && rng.chance(1, 3) {
        clauses.push(format!("LIMIT {}", rng.below(6)));
    }
    rng.shuffle(&mut clauses);
    for c in clauses {
        q.push(' ');
        q.push_str(&c);
    }
    GenQuery { text: q, is_aggregate: aggregate, joined }
}

/// HAVING: a boolean combination (AND / OR / NOT, 1-3 comparisons) of aggregates against constants inside the data
/// range, with deliberate repeats of the SAME aggregate (range conditions `A >= lo AND A <= hi`, `A = 1 OR A = 3`),
/// aggregates that also occur in the select list, and mixes of two different aggregates
pub fn gen_having(rng: &mut Rng, sch: &Schema, joined: bool, select_list: &[String]) -> String {
    const INT_AGGS: &[&str] = &["COUNT(*)", "COUNT(*)", "COUNT(v)", "COUNT(w)", "COUNT(s)", "SUM(v)", "SUM(w)", "MAX(w)", "MIN(v)", "MAX(v)", "COUNT(DISTINCT k)", "COUNT(DISTINCT w)", "AVG(v)"];
    let pick = |rng: &mut Rng| -> String {
        if !select_list.is_empty() && rng.chance(2, 5) { rng.pick(select_list).clone() }
        else if rng.chance(1, 8) { gen_aggregate(rng, sch, joined) }
        else { (*rng.pick(INT_AGGS)).to_owned() }
    };
    let cmp = |rng: &mut Rng, a: &str| -> String {
        format!("{} {} {}", a, rng.pick(&[">", ">=", "<", "<=", "=", "!="]), rng.pick(&["0", "1", "2", "3", "5", "10"]))
    };
    let a = pick(rng);
    let b = pick(rng);
    // one HAVING in fourteen is not a BOOLEAN: a bare aggregate, or an AND / OR with a bare aggregate as an operand (D69:
    // a group on which it is evaluated and not NULL makes the run report an error)
    if rng.chance(1, 14) {
        return match rng.below(3) { 0 => a, 1 => format!("{} AND {}", cmp(rng, &b), a), _ => format!("{} OR {}", a, cmp(rng, &b)) };
    }
    match rng.below(8) {
        0 | 1 => cmp(rng, &a),
        2 => { let lo = rng.below(3); format!("{} >= {} AND {} <= {}", a, lo, a, lo + 1 + rng.below(3)) }
        3 => format!("{} AND {}", cmp(rng, &a), cmp(rng, &b)),
        4 => format!("{} OR {}", cmp(rng, &a), cmp(rng, &a)),
        5 => format!("NOT ({})", cmp(rng, &a)),
        6 => format!("{} AND {} AND {}", cmp(rng, &a), cmp(rng, &a), cmp(rng, &b)),
        _ => format!("({} OR {}) AND {}", cmp(rng, &a), cmp(rng, &b), cmp(rng, &a)),
    }
}

pub fn gen_aggregate(rng: &mut Rng, sch: &Schema, joined: bool) -> String {
    let int_arg = |rng: &mut Rng| if rng.chance(3, 4) { col_of(rng, Ty::Int, sch, joined) } else { gen_sql_expr(rng, 1, Ty::Int, sch, joined) };
    match rng.below(16) {
        0 | 1 => "COUNT(*)".to_owned(),
        2 | 3 => format!("COUNT({})", rng.pick(&["v", "w", "k", "s", "r"])),
        4 => format!("COUNT(DISTINCT {})", rng.pick(&["v", "w", "k", "r"])),
        5 | 6 => format!("SUM({})", if rng.chance(1, 4) { "r".to_owned() } else { int_arg(rng) }),
        7 => format!("MIN({})", rng.pick(&["v", "w", "k", "s", "r"])),
        8 => format!("MAX({})", rng.pick(&["v", "w", "k", "s", "r"])),
        9 => format!("AVG({})", if rng.chance(1, 3) { "r".to_owned() } else { int_arg(rng) }),
        10 => format!("{}({})", rng.pick(&["STDDEV", "VARIANCE"]), rng.pick(&["v", "w", "r"])),
        11 => format!("PERCENTILE({}, {})", rng.pick(&["v", "w", "k", "r"]), rng.pick(&["0.0", "0.5", "0.99", "1.0", "0.25"])),
        12 => format!("{}({})", rng.pick(&["BOOL_AND", "BOOL_OR"]), gen_sql_expr(rng, 1, Ty::Bool, sch, joined)),
        13 => format!("ARRAY_AGG({})", rng.pick(&["v", "k", "w"])),
        14 => format!("STRING_AGG({}, '{}')", rng.pick(&["k", "s"]), rng.pick(&[",", "", "; "])),
        _ => format!("MAX({})", int_arg(rng)),
    }
}

// ---------- serialisation of lowered statements ----------

fn opt_expr(e: &Option<ExpressionTree>) -> String {
    match e { Some(e) => expr_sexp(e), None => "(none)".to_owned() }
}

fn opt_nat(n: &Option<usize>) -> String {
    match n { Some(n) => n.to_string(), None => "(none)".to_owned() }
}

pub fn agg_kind_sexp(a: &Aggregate) -> String {
    match a {
        Aggregate::GroupKey(e) => format!("(gkey {} {})", expr_sexp(e), hexs(&expr_sexp(e))),
        Aggregate::Count(c, d) => format!("(count {} {})", match c { Some(c) => hexs(c), None => "(none)".to_owned() }, if *d { 1 } else { 0 }),
        Aggregate::Min(e) => format!("(min {})", expr_sexp(e)),
        Aggregate::Max(e) => format!("(max {})", expr_sexp(e)),
        Aggregate::Sum(e) => format!("(sum {})", expr_sexp(e)),
        Aggregate::Average(e) => format!("(avg {})", expr_sexp(e)),
        Aggregate::StandardDeviation(e, v) => format!("(stddev {} {})", expr_sexp(e), if *v { 1 } else { 0 }),
        Aggregate::Percentile(e, p) => format!("(percentile {} {})", expr_sexp(e), p.0.to_bits()),
        Aggregate::BoolAnd(e) => format!("(booland {})", expr_sexp(e)),
        Aggregate::BoolOr(e) => format!("(boolor {})", expr_sexp(e)),
        Aggregate::CollectArray(e) => format!("(arrayagg {})", expr_sexp(e)),
        Aggregate::CollectString(e, d) => format!("(stringagg {} {})", expr_sexp(e), hexs(d)),
    }
}

pub fn stmt_sexp(stmt: &Statement) -> Option<String> {
    match stmt {
        Statement::Select(s) => {
            let mut projs = String::from("(projs");
            for (n, e) in &s.projections {
                projs.push_str(&format!(" ({} {})", hexs(n), expr_sexp(e)));
            }
            projs.push(')');
            Some(format!("(select {} {} {} {} {})", projs, if s.is_wildcard_projection() { 1 } else { 0 }, opt_expr(&s.filter), opt_nat(&s.limit), if s.distinct { 1 } else { 0 }))
        }
        Statement::Aggregate(a) => {
            let mut items = String::from("(items");
            for it in &a.aggregates {
                items.push_str(&format!(" ({} {} {})", hexs(&it.name), agg_kind_sexp(&it.aggregate), opt_expr(&it.transform)));
            }
            items.push(')');
            let groupby = match &a.group_by {
                Some(parts) => {
                    let mut s = String::from("(groupby");
                    for p in parts {
                        s.push_str(&format!(" ({} {})", expr_sexp(p), hexs(&expr_sexp(p))));
                    }
                    s.push(')');
                    s
                }
                None => "(none)".to_owned(),
            };
            let mut haggs = String::from("(haggs");
            let mut hkeys = String::from("(hkeys");
            let mut hvisit = String::from("(hvisit");
            if let Some(h) = &a.having {
                let _ = h.visit::<(), _>(&mut |t| {
                    if let ExpressionTree::Aggregate(id, agg) = t {
                        match agg.as_ref() {
                            Aggregate::GroupKey(col) => {
                                hkeys.push_str(&format!(" {}", hexs(&expr_sexp(col))));
                                hvisit.push_str(&format!(" (key {})", hexs(&expr_sexp(col))));
                            }
                            other => {
                                haggs.push_str(&format!(" ({} {})", id, agg_kind_sexp(other)));
                                hvisit.push_str(&format!(" (agg {} {})", id, agg_kind_sexp(other)));
                            }
                        }
                    }
                    Ok(())
                });
            }
            haggs.push(')');
            hkeys.push(')');
            hvisit.push(')');
            Some(format!("(agg {} {} {} {} {} {} {} {} {})", items, opt_expr(&a.filter), groupby, opt_expr(&a.having), haggs, hkeys, hvisit, opt_nat(&a.limit), if a.distinct { 1 } else { 0 }))
        }
        _ => None,
    }
}

pub fn table_sexp(t: &TableDefinition) -> String {
    let mut s = format!("(table {}", hexs(&t.name));
    for c in &t.columns {
        s.push_str(&format!(" {}", hexs(&c.name)));
    }
    s.push(')');
    s
}

pub fn query_sexp(stmt: &Statement, tables: &Tables) -> Option<String> {
    let from = match stmt { Statement::Select(s) => &s.from, Statement::Aggregate(a) => &a.from, _ => return None };
    let t = tables.get(from)?;
    let join = match stmt.join_clause() {
        Some(j) => {
            let jt = tables.get(&j.joined_table)?;
            format!("(join {} {} {} {})", table_sexp(jt), hexs(&j.joiner_column), hexs(&j.joined_column), if j.is_outer { 1 } else { 0 })
        }
        None => "(nojoin)".to_owned(),
    };
    Some(format!("(query {} {} {})", stmt_sexp(stmt)?, table_sexp(t), join))
}

/// a file's physical lines as `BufRead::lines` yields them, each with the row the real `extract` produces
pub fn file_sexp(table: &TableDefinition, content: &[u8], strings: &mut BTreeSet<String>) -> String {
    use std::io::BufRead;
    let mut s = String::from("(file");
    for line in std::io::BufReader::new(content).lines() {
        match line {
            Ok(l) => {
                let row = table.extract(&l);
                s.push_str(&format!(" (l {}", hex(l.as_bytes())));
                for v in &row.columns {
                    collect_value_strings(v, strings);
                    s.push(' ');
                    s.push_str(&value_sexp(v));
                }
                s.push(')');
                strings.insert(l);
            }
            Err(_) => {
                s.push_str(" (bad)");
                break; // the run stops at the first unreadable line; later lines are never looked at
            }
        }
    }
    s.push(')');
    s
}

pub fn stmt_strings(stmt: &Statement, out: &mut BTreeSet<String>) {
    let mut ex = |e: &ExpressionTree| collect_expr_strings(e, out);
    match stmt {
        Statement::Select(s) => {
            for (_, e) in &s.projections { ex(e); }
            if let Some(f) = &s.filter { ex(f); }
        }
        Statement::Aggregate(a) => {
            for it in &a.aggregates {
                if let Some(t) = &it.transform { ex(t); }
                agg_exprs(&it.aggregate, &mut ex);
            }
            if let Some(f) = &a.filter { ex(f); }
            if let Some(g) = &a.group_by { for p in g { ex(p); } }
            if let Some(h) = &a.having {
                ex(h);
                let mut inner: Vec<ExpressionTree> = Vec::new();
                let _ = h.visit::<(), _>(&mut |t| {
                    if let ExpressionTree::Aggregate(_, agg) = t {
                        agg_exprs(agg, &mut |e: &ExpressionTree| inner.push(e.clone()));
                    }
                    Ok(())
                });
                for e in &inner { ex(e); }
            }
        }
        _ => {}
    }
}

fn agg_exprs<F: FnMut(&ExpressionTree)>(a: &Aggregate, f: &mut F) {
    match a {
        Aggregate::GroupKey(e) | Aggregate::Min(e) | Aggregate::Max(e) | Aggregate::Sum(e) | Aggregate::Average(e)
        | Aggregate::StandardDeviation(e, _) | Aggregate::Percentile(e, _) | Aggregate::BoolAnd(e) | Aggregate::BoolOr(e)
        | Aggregate::CollectArray(e) | Aggregate::CollectString(e, _) => f(e),
        Aggregate::Count(_, _) => {}
    }
}

pub const REGEX_PATTERNS: &[&str] = &["^a", "l+", "[0-9]"];

pub fn pattern_set() -> BTreeSet<String> {
    REGEX_PATTERNS.iter().map(|s| (*s).to_owned()).collect()
}
