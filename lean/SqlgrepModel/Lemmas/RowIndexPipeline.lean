import SqlgrepModel.Lemmas.RowIndex
import SqlgrepModel.Lemmas.JoinIndex
import SqlgrepModel.Lemmas.JoinNames
import SqlgrepModel.Spec.Pipeline
/-
`row[index]` sites, composed over the end-to-end model (`Model/Pipeline.lean`): the rows the engine model is handed by
`runStatement` are `Extract.extractRow` outputs of the table the statement names, the column names it indexes them by
are the names the SAME lowered CREATE TABLE produced, so every admitted row has exactly one cell per column name and
every index computed from a name (`indexOf? columns name`: the join key indices of `lineEnvs` / `loadJoin`, the cells
`columnsMapping` pairs with the names) is in range.

Builds on `Lemmas/RowIndex.lean` (`lowerCreate_aligned`, `admitted_row_full`, `row_index_in_range`: the stage facts) and
on `Lemmas/JoinIndex.lean` (`joinIndexGet_loadJoin`: the partners found in the index are admitted rows of the joined
file).
-/
namespace Sqlgrep.Pipeline
open Sqlgrep Sqlgrep.Extract Sqlgrep.Spec.Pipeline

/-- the engine view and the extraction view of a table agree: one column name per column -/
def Table.Aligned (t : Table) : Prop := t.columns.length = t.defn.columns.length

/-- every admitted row of the file has exactly `n` cells -/
def RowsFull (n : Nat) (fls : List FileLine) : Prop :=
  ∀ fl ∈ fls, anyResult fl.line.row = true → fl.line.row.length = n

/-! ### tables that come out of `parsing::parse` are aligned -/

theorem mapM_mem {α β : Type} (f : α → Option β) : ∀ (xs : List α) (ys : List β), xs.mapM f = some ys →
    ∀ y ∈ ys, ∃ x ∈ xs, f x = some y := by
  intro xs
  induction xs with
  | nil => intro ys h y hy; simp at h; subst h; cases hy
  | cons x rest ih =>
    intro ys h y hy
    rw [List.mapM_cons] at h
    cases hx : f x with
    | none => rw [hx] at h; cases h
    | some y0 =>
      rw [hx] at h
      cases hr : rest.mapM f with
      | none => rw [hr] at h; cases h
      | some ys' =>
        rw [hr] at h
        simp only [bind, Option.bind, pure, Option.some.injEq] at h
        subst h
        rcases List.mem_cons.1 hy with e | hy
        · exact ⟨x, List.mem_cons_self, by rw [e]; exact hx⟩
        · obtain ⟨x', hx', e⟩ := ih ys' hr y hy
          exact ⟨x', List.mem_cons_of_mem _ hx', e⟩

/-- what the lowering of CREATE TABLE statements delivers -/
def LStmt.CreateAligned : LStmt → Prop
  | .createTable _ d names => names.length = d.columns.length
  | _ => False

theorem lowerCreate_createAligned (rv : List Char → Bool) (c : PCreate) (s : LStmt) (h : Lower.lowerCreate rv c = .ok s) :
    LStmt.CreateAligned s := by
  have shape : ∃ n d names, s = .createTable n d names := by
    unfold Lower.lowerCreate at h
    split at h
    · split at h
      · simp only [LRes.ok.injEq] at h
        exact ⟨_, _, _, h.symm⟩
      · cases h
    · cases h
    · cases h
  obtain ⟨n, d, names, rfl⟩ := shape
  exact lowerCreate_aligned rv c n d names h

theorem lowerCreates_createAligned (rv : List Char → Bool) : ∀ (cs : List PCreate) (ss : List LStmt),
    Lower.lowerCreates rv cs = .ok ss → ∀ s ∈ ss, LStmt.CreateAligned s := by
  intro cs
  induction cs with
  | nil => intro ss h s hs; rw [Lower.lowerCreates] at h; cases h; cases hs
  | cons c rest ih =>
    intro ss h s hs
    rw [Lower.lowerCreates] at h
    cases hc : Lower.lowerCreate rv c with
    | ok s0 =>
      rw [hc] at h
      cases hr : Lower.lowerCreates rv rest with
      | ok ss' =>
        rw [hr] at h
        simp only [LRes.ok.injEq] at h
        subst h
        rcases List.mem_cons.1 hs with e | hs
        · rw [e]; exact lowerCreate_createAligned rv c s0 hc
        · exact ih ss' hr s hs
      | err e => rw [hr] at h; cases h
      | panic p => rw [hr] at h; cases h
    | err e => rw [hc] at h; cases h
    | panic p => rw [hc] at h; cases h

theorem tableOf_aligned_of (s : LStmt) (t : Table) (hs : LStmt.CreateAligned s) (h : tableOf s = some t) : t.Aligned := by
  cases s with
  | createTable n d names =>
    simp only [tableOf, Option.some.injEq] at h
    subst h
    exact hs
  | select _ _ _ _ => cases h
  | aggregate _ _ _ _ => cases h
  | multiple _ => cases h

theorem lowerSelect_no_tables (q : PSelect) (s : LStmt) (h : Lower.lowerSelect q = .ok s) : addTables s = none := by
  unfold Lower.lowerSelect at h
  repeat' split at h
  all_goals (cases h <;> rfl)

theorem lowerAggregateStmt_no_tables (q : PSelect) (s : LStmt) (h : Lower.lowerAggregateStmt q = .ok s) : addTables s = none := by
  unfold Lower.lowerAggregateStmt at h
  repeat' split at h
  all_goals (cases h <;> rfl)

/-- every table `Tables::add_tables` gets from a lowered statement has one column name per column -/
theorem lowerStatement_tables_aligned (rv : List Char → Bool) (t : POp) (defs : LStmt) (tables : List Table)
    (h : Lower.lowerStatement rv t = .ok defs) (ht : addTables defs = some tables) : ∀ tb ∈ tables, tb.Aligned := by
  cases t with
  | select q =>
    exfalso
    simp only [Lower.lowerStatement] at h
    have : addTables defs = none := by
      repeat' split at h
      all_goals first
        | cases h
        | exact lowerAggregateStmt_no_tables q defs h
        | exact lowerSelect_no_tables q defs h
    rw [this] at ht; cases ht
  | createTable c =>
    simp only [Lower.lowerStatement] at h
    have ha := lowerCreate_createAligned rv c defs h
    cases defs with
    | createTable n d names =>
      simp only [addTables, tableOf, Option.map_some, Option.some.injEq] at ht
      subst ht
      intro tb htb
      simp only [List.mem_singleton] at htb
      subst htb
      exact ha
    | select _ _ _ _ => cases ha
    | aggregate _ _ _ _ => cases ha
    | multiple _ => cases ha
  | multiple cs =>
    simp only [Lower.lowerStatement] at h
    cases hl : Lower.lowerCreates rv cs with
    | ok ss =>
      rw [hl] at h
      simp only [LRes.ok.injEq] at h
      subst h
      simp only [addTables] at ht
      intro tb htb
      obtain ⟨s, hs, e⟩ := mapM_mem tableOf ss tables ht tb htb
      exact tableOf_aligned_of s tb (lowerCreates_createAligned rv cs ss hl s hs) e
    | err e => rw [hl] at h; cases h
    | panic p => rw [hl] at h; cases h

/-- … in particular every table that comes out of a definitions TEXT -/
theorem parseText_tables_aligned (lo : Lex.Oracles) (rv : List Char → Bool) (text : List Char) (defs : LStmt)
    (tables : List Table) (h : parseText lo rv text = .stmt defs) (ht : addTables defs = some tables) :
    ∀ tb ∈ tables, tb.Aligned := by
  unfold parseText at h
  split at h
  · unfold parseToks at h
    split at h
    · unfold lowerTree at h
      split at h
      · rename_i t _ s hs
        simp only [Parsed.stmt.injEq] at h
        subst h
        exact lowerStatement_tables_aligned rv _ _ tables hs ht
      · cases h
      · cases h
    · cases h
    · cases h
    · cases h
  · cases h
  · cases h

theorem getTable_mem (ts : List Table) (name : String) (t : Table) (h : getTable ts name = some t) : t ∈ ts := by
  unfold getTable at h
  exact List.mem_reverse.1 (List.mem_of_find?_eq_some h)

/-! ### the rows `fileLines` hands to the engine -/

/-- an item of `BufRead::lines` as the batch loop sees it: if its row is admitted it has one cell per column -/
theorem mkLine_row_full (F : Facts) (d : TableDef) (x : Except Unit (List Nat)) (fl : FileLine)
    (h : mkLine F d x = some fl) (ha : anyResult fl.line.row = true) : fl.line.row.length = d.columns.length := by
  cases x with
  | error u =>
    simp only [mkLine, Option.some.injEq] at h
    subst h
    simp [anyResult] at ha
  | ok l =>
    simp only [mkLine] at h
    split at h
    · simp only [Option.some.injEq] at h
      subst h
      exact admitted_row_full _ _ _ ha
    · cases h

theorem fileLines_rows_full (F : Facts) (d : TableDef) (bytes : List Nat) (fls : List FileLine)
    (h : fileLines F d bytes = some fls) : RowsFull d.columns.length fls := by
  intro fl hfl ha
  obtain ⟨x, _, hx⟩ := mapM_mem (mkLine F d) _ fls h fl hfl
  exact mkLine_row_full F d x fl hx ha

theorem files_rows_full (F : Facts) (d : TableDef) (files : List (List Nat)) (fs : List (List FileLine))
    (h : files.mapM (fileLines F d) = some fs) : ∀ f ∈ fs, RowsFull d.columns.length f := by
  intro f hf
  obtain ⟨bytes, _, hb⟩ := mapM_mem (fileLines F d) files fs h f hf
  exact fileLines_rows_full F d bytes f hb

/-- **the inputs of a prepared run**: every admitted row of every input file has one cell per column name of the
queried table, every admitted row of the joined file one cell per column name of the joined table -/
theorem prepare_rows_full (F : Facts) (tables : List Table) (stmt : Stmt) (fromTable : String) (join : Option LJoin)
    (files : List (List Nat)) (p : Prepared) (hal : ∀ tb ∈ tables, tb.Aligned)
    (h : prepare F tables stmt fromTable join files = some p) :
    (∀ f ∈ p.files, RowsFull p.qy.table.columns.length f) ∧
    (∀ j, p.qy.join = some j → RowsFull j.joined.columns.length p.joined) := by
  unfold prepare at h
  cases hg : getTable tables fromTable with
  | none => rw [hg] at h; cases h
  | some tb =>
    rw [hg] at h
    simp only at h
    have htb : tb.columns.length = tb.defn.columns.length := hal tb (getTable_mem _ _ _ hg)
    cases hf : files.mapM (fileLines F tb.defn) with
    | none => rw [hf] at h; cases h
    | some fs =>
      rw [hf] at h
      simp only at h
      have hfs := files_rows_full F tb.defn files fs hf
      cases join with
      | none =>
        simp only [Option.some.injEq] at h
        subst h
        refine ⟨?_, fun j hj => by cases hj⟩
        intro f hf'
        show RowsFull tb.columns.length f
        rw [htb]; exact hfs f hf'
      | some j =>
        simp only at h
        cases hu : getTable tables j.joinedTable with
        | none => rw [hu] at h; cases h
        | some u =>
          rw [hu] at h
          simp only at h
          have hub : u.columns.length = u.defn.columns.length := hal u (getTable_mem _ _ _ hu)
          cases ho : openJoined F j with
          | none => rw [ho] at h; cases h
          | some bytes =>
            rw [ho] at h
            simp only at h
            cases hjl : fileLines F u.defn bytes with
            | none => rw [hjl] at h; cases h
            | some jl =>
              rw [hjl] at h
              simp only [Option.some.injEq] at h
              subst h
              refine ⟨?_, ?_⟩
              · intro f hf'
                show RowsFull tb.columns.length f
                rw [htb]; exact hfs f hf'
              · intro j' hj'
                simp only [Option.some.injEq] at hj'
                subst hj'
                show RowsFull u.columns.length jl
                rw [hub]; exact fileLines_rows_full F u.defn bytes jl hjl

/-! ### what the engine does with such rows -/

/-- the partners `lineEnvs` finds in the join index are admitted rows of the joined file: they have one cell per column
name of the joined table (so `joinedMapping`'s `zip` pairs every joined column with its cell) -/
theorem join_partners_full (j : JoinInfo) (lines : List Line) (idx : JoinIndex)
    (hfull : ∀ l ∈ lines, anyResult l.row = true → l.row.length = j.joined.columns.length)
    (hl : loadJoin j lines = .ok idx) (q : Value) (partners : List (List Value))
    (hp : joinIndexGet idx q = some partners) : ∀ r ∈ partners, r.length = j.joined.columns.length := by
  cases hk : indexOf? j.joined.columns j.joinedColumn with
  | none => unfold loadJoin at hl; rw [hk] at hl; cases hl
  | some ki =>
    have := joinIndexGet_loadJoin j lines idx ki hk hl q
    rw [hp] at this
    simp only at this
    split at this
    · cases this
    · simp only [Option.some.injEq] at this
      subst this
      intro r hr
      unfold matchingRows at hr
      have hr' := (List.mem_filter.1 hr).1
      obtain ⟨l, hlm, e⟩ := List.mem_map.1 hr'
      have hlm' := List.mem_filter.1 hlm
      rw [← e]
      exact hfull l hlm'.1 hlm'.2

/-- with one cell per column name, the evaluator environment of a line binds EVERY column name (no column is lost to
a short row): a name with a position among the columns is found -/
theorem lineEnv_binds_every_column (t : TableInfo) (row : List Value) (line : Bytes) (hr : row.length = t.columns.length)
    (n : String) (i : Nat) (hn : indexOf? t.columns n = some i) :
    ∃ v, (envOfInsertions (columnsMapping t row line)).get .table n = some v := by
  have hmem : n ∈ t.columns := by
    unfold indexOf? at hn
    obtain ⟨hlt, hbeq, _⟩ := List.findIdx?_eq_some_iff_getElem.1 hn
    have : t.columns[i] = n := by simpa using hbeq
    rw [← this]; exact List.getElem_mem hlt
  have hk := keysOf_columnsMapping_full t row line hr.symm n hmem
  rw [env_get_table]
  unfold lastGet
  obtain ⟨p, hp, e⟩ := List.mem_map.1 hk
  cases hf : (columnsMapping t row line).reverse.find? (fun p => p.1 == n) with
  | some x => exact ⟨x.2, rfl⟩
  | none =>
    exfalso
    have := List.find?_eq_none.1 hf p (List.mem_reverse.2 hp)
    simp [e] at this

/-- … and the zip of names and cells drops nothing -/
theorem columns_zip_full (t : TableInfo) (row : List Value) (hr : row.length = t.columns.length) :
    (t.columns.zip row).map (·.1) = t.columns ∧ (t.columns.zip row).map (·.2) = row := by
  constructor
  · exact List.map_fst_zip (by omega)
  · exact List.map_snd_zip (by omega)

end Sqlgrep.Pipeline
