// Shared helpers: PRNG, hex, S-expression encoding of values, panic capture.
use std::panic::{catch_unwind, AssertUnwindSafe};

use chrono::{Datelike, Timelike};
use sqlgrep::model::{Float, Value, ValueType};

#[derive(Clone)]
pub struct Rng(pub u64);

impl Rng {
    pub fn new(seed: u64) -> Rng {
        // scramble the seed: consecutive seeds must give unrelated streams (the state advances by a constant, so
        // an affine seeding would make the stream of seed s+1 the stream of seed s shifted by one draw)
        let mut z = seed ^ 0x6a09e667f3bcc909;
        z = (z ^ (z >> 30)).wrapping_mul(0xBF58476D1CE4E5B9);
        z = (z ^ (z >> 27)).wrapping_mul(0x94D049BB133111EB);
        Rng(z ^ (z >> 31))
    }

    pub fn next(&mut self) -> u64 {
        self.0 = self.0.wrapping_add(0x9E3779B97F4A7C15);
        let mut z = self.0;
        z = (z ^ (z >> 30)).wrapping_mul(0xBF58476D1CE4E5B9);
        z = (z ^ (z >> 27)).wrapping_mul(0x94D049BB133111EB);
        z ^ (z >> 31)
    }

    pub fn below(&mut self, n: usize) -> usize {
        if n == 0 { 0 } else { (self.next() % n as u64) as usize }
    }

    pub fn range(&mut self, lo: i64, hi: i64) -> i64 {
        lo + (self.next() % ((hi - lo + 1) as u64)) as i64
    }

    pub fn chance(&mut self, num: u64, den: u64) -> bool {
        self.next() % den < num
    }

    pub fn pick<'a, T>(&mut self, xs: &'a [T]) -> &'a T {
        &xs[self.below(xs.len())]
    }

    pub fn shuffle<T>(&mut self, xs: &mut Vec<T>) {
        for i in (1..xs.len()).rev() {
            let j = self.below(i + 1);
            xs.swap(i, j);
        }
    }
}

/// Which cases ship the facts the Lean model can *compute* itself (`f64::from_str` via Model/DecFloat.lean,
/// chrono's `%Y-%m-%d %H:%M:%S` parse via `Lit.parseTimestampLit`, the JSON document of a line via Model/JsonDoc.lean)?
/// Every second one, counted per kind of fact (`site`; generation is deterministic, and a case line carries the facts
/// it was given, so a replay is the line itself): where the facts are shipped the driver cross-checks them against
/// the computed answer (`fact-mismatch`), where they are not the model runs on the computed answer alone — both
/// paths are exercised in every run. Sites with an odd number alternate in pairs, so that the kinds of fact of one
/// end-to-end case are not all shipped or all withheld together.
pub const SITE_NUMBERS: usize = 0;      // tokenizer number table
pub const SITE_EVAL: usize = 1;         // evaluator fparse / tsparse
pub const SITE_EXTRACT_F64: usize = 2;  // extraction f64
pub const SITE_EXTRACT_DOC: usize = 3;  // the line's JSON document (extract cases)
pub const SITE_E2E_F64: usize = 4;
pub const SITE_E2E_DOC: usize = 5;
pub fn ship_facts(site: usize) -> bool {
    use std::sync::atomic::{AtomicU64, Ordering};
    static COUNTERS: [AtomicU64; 6] = [AtomicU64::new(0), AtomicU64::new(0), AtomicU64::new(0), AtomicU64::new(0), AtomicU64::new(0), AtomicU64::new(0)];
    let n = COUNTERS[site].fetch_add(1, Ordering::Relaxed);
    if site % 2 == 1 { (n / 2) % 2 == 0 } else { n % 2 == 0 }
}

pub fn hex(bytes: &[u8]) -> String {
    let mut s = String::with_capacity(bytes.len() * 2 + 1);
    s.push('x');
    for b in bytes {
        s.push_str(&format!("{:02x}", b));
    }
    s
}

pub fn hexs(text: &str) -> String {
    hex(text.as_bytes())
}

pub fn vtype_sexp(t: &ValueType) -> String {
    match t {
        ValueType::Int => "int".to_owned(),
        ValueType::Float => "real".to_owned(),
        ValueType::Bool => "bool".to_owned(),
        ValueType::String => "text".to_owned(),
        ValueType::Array(e) => format!("(arr {})", vtype_sexp(e)),
        ValueType::Timestamp => "timestamp".to_owned(),
        ValueType::Interval => "interval".to_owned(),
    }
}

pub fn value_sexp(v: &Value) -> String {
    match v {
        Value::Null => "(null)".to_owned(),
        Value::Int(i) => format!("(int {})", i),
        Value::Float(Float(f)) => format!("(real {})", f.to_bits()),
        Value::Bool(b) => format!("(bool {})", if *b { 1 } else { 0 }),
        Value::String(s) => format!("(text {})", hexs(s)),
        Value::Array(t, xs) => {
            let mut s = format!("(array {}", vtype_sexp(t));
            for x in xs {
                s.push(' ');
                s.push_str(&value_sexp(x));
            }
            s.push(')');
            s
        }
        Value::Timestamp(ts) => {
            let n = ts.naive_utc();
            format!("(ts {} {} {})", n.date().num_days_from_ce(), n.time().num_seconds_from_midnight(), n.time().nanosecond())
        }
        Value::Interval(d) => {
            let total = d.num_seconds() as i128 * 1_000_000_000 + d.subsec_nanos() as i128;
            format!("(iv {})", total)
        }
    }
}

pub fn values_sexp(vs: &[Value]) -> String {
    let mut s = String::from("(");
    for (i, v) in vs.iter().enumerate() {
        if i > 0 { s.push(' '); }
        s.push_str(&value_sexp(v));
    }
    s.push(')');
    s
}

pub enum Caught<T> {
    Done(T),
    Panic(String),
}

pub fn catch<T, F: FnOnce() -> T>(f: F) -> Caught<T> {
    match catch_unwind(AssertUnwindSafe(f)) {
        Ok(v) => Caught::Done(v),
        Err(e) => {
            let msg = if let Some(s) = e.downcast_ref::<&str>() {
                (*s).to_owned()
            } else if let Some(s) = e.downcast_ref::<String>() {
                s.clone()
            } else {
                "panic".to_owned()
            };
            Caught::Panic(msg)
        }
    }
}

pub fn silence_panics() {
    std::panic::set_hook(Box::new(|_| {}));
}

pub fn json_escape(s: &str) -> String {
    serde_json::to_string(s).unwrap()
}

/// terminal output as screens: the text is cut at every "erase display" control sequence (`ESC [ 2 J`, also `ESC c`), every other control sequence (`ESC [ … letter`, e.g. cursor home) is removed. Element 0 is what was printed
/// before the first erase; every further element is what one refresh shows. The exact choice of sequences is not part
/// of any property, only "the screen was cleared here".
pub fn split_screens(raw: &str) -> Vec<String> {
    let mut screens = vec![String::new()];
    let cs: Vec<char> = raw.chars().collect();
    let mut i = 0;
    while i < cs.len() {
        if cs[i] == '\x1B' && i + 1 < cs.len() && cs[i + 1] == '[' {
            let mut j = i + 2;
            while j < cs.len() && !(cs[j].is_ascii_alphabetic()) { j += 1; }
            if j < cs.len() {
                let params: String = cs[i + 2..j].iter().collect();
                // `ESC [ 3 J` (erase the scroll-back) only accompanies an erase and is dropped like cursor movements
                if cs[j] == 'J' && params == "2" { screens.push(String::new()); }
                i = j + 1;
                continue;
            }
        }
        if cs[i] == '\x1B' && i + 1 < cs.len() && cs[i + 1] == 'c' { screens.push(String::new()); i += 2; continue; }
        screens.last_mut().unwrap().push(cs[i]);
        i += 1;
    }
    screens
}

/// terminal output with every control sequence removed
pub fn strip_control(raw: &str) -> String { split_screens(raw).concat() }
