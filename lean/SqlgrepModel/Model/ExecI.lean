import SqlgrepModel.Model.Exec
/-
`FileExecutor::execute` with everything that can happen around the joined file and the `running` flag
(extends `Model/Exec.lean`; `runBatchI … (some joined) … none stopAt = runBatch … joined … stopAt`, see
`Lemmas/InterruptLoad.lean`):

* the joined file may be missing (`File::open` fails after both join columns were looked up);
* `JoinedTableData::execute` samples the flag only before a line whose number `n` satisfies `n > 0 ∧ n % 10 = 0`;
  when it finds the flag cleared it leaves the loop and returns the PARTIAL index as a success; the batch loop
  then finds the flag cleared before its first line, so no input line is consumed, and an aggregate statement
  still prints its (empty-input) table;
* `clearAt = some m`: the flag is cleared just before the joined file's line `m` (0-based) is looked at — the
  place of the per-line hook — and stays cleared (nothing sets it again during a run). If the file has no line
  `m` the clearing never happens.
Follow mode (`FollowFileExecutor::execute`): one `executeLine` with update+result per delivered line, the flag
sampled before each line, no final print, joins refused.
-/
namespace Sqlgrep

/-- the line loop of `JoinedTableData::execute`; returns the index and the number of lines processed -/
def loadJoinLoop (ki : Nat) (clearAt : Option Nat) : List FileLine → Nat → JoinIndex → Outcome (JoinIndex × Nat)
  | [], n, idx => .ok (idx, n)
  | fl :: rest, n, idx =>
    -- `if line_number > 0 && line_number % 10 == 0 { if !running { break } }`
    if n > 0 && n % 10 == 0 && (match clearAt with
        | some m => decide (m ≤ n)
        | none => false) then .ok (idx, n)
    else if !fl.readable then .error .failReadFile
    else loadJoinLoop ki clearAt rest (n + 1)
      (if anyResult fl.line.row then joinIndexAdd idx (fl.line.row.getD ki .null) fl.line.row else idx)

/-- `JoinedTableData::execute`: joined column, then `File::open` (`none` = no such file), then the loop -/
def loadJoinFileI (j : JoinInfo) (file : Option (List FileLine)) (clearAt : Option Nat) : Outcome (JoinIndex × Nat) :=
  match indexOf? j.joined.columns j.joinedColumn with
  | none => .error .columnNotFound
  | some ki =>
    match file with
    | none => .error .failOpenFile
    | some lines => loadJoinLoop ki clearAt lines 0 []

/-- the batch loop and the final aggregate print of `FileExecutor::execute`, given the outcome of
`execute_joined_table` (this is the body of `runBatch`) -/
def runWithIndex (O : Oracles) (qy : Query) (idxO : Outcome JoinIndex) (files : List (List FileLine)) (stopAt : Option Nat) : RunOut :=
  match idxO with
  | .ok idx =>
    let isAgg := match qy.stmt with
      | .aggregate _ => true
      | _ => false
    let ls := runFiles O qy idx (!isAgg) stopAt files {}
    if hasFailed ls.out then ls.out
    else match qy.stmt with
      | .aggregate q =>
        match finalResult O q ls.es with
        | .ok r => { ls.out with printed := ls.out.printed ++ printResult r true }
        | o => failWith ls.out o
      | _ => ls.out
  | o => failWith {} o

/-- `FileExecutor::execute` with an optional joined file and both interrupt points; also returns the number of
joined lines the loader processed -/
def runBatchI (O : Oracles) (qy : Query) (joined : Option (List FileLine)) (files : List (List FileLine))
    (clearAt : Option Nat) (stopAt : Option Nat) : RunOut × Nat :=
  match qy.join with
  | none => (runWithIndex O qy (.ok []) files stopAt, 0)
  | some j =>
    let loaded := setupJoin qy.table j ((loadJoinFileI j joined clearAt).bind (fun p => .ok p.1))
    let n := match loaded, loadJoinFileI j joined clearAt with
      | .ok _, .ok p => p.2
      | _, _ => 0
    -- a flag cleared while the joined file was being loaded is still cleared when the batch loop starts
    let cleared := match clearAt, joined with
      | some m, some lines => decide (m < lines.length)
      | _, _ => false
    (runWithIndex O qy loaded files (if cleared then some 0 else stopAt), n)

/-! ### follow mode -/

/-- `FollowFileExecutor::execute` over the lines the follow iterator delivers (statements without join; with a
join the executor returns `JoinNotSupported` before reading anything). `stopAt`: number of delivered lines after
which the flag is found cleared. -/
def runFollow (O : Oracles) (qy : Query) (stopAt : Option Nat) : List Line → LoopState → LoopState
  | [], ls => ls
  | l :: rest, ls =>
    if stopAt == some ls.consumed then ls
    else
      let ls := { ls with consumed := ls.consumed + 1, out := { ls.out with totalLines := ls.out.totalLines + 1 } }
      match executeLine O qy [] true ls.es l with
      | .ok (es, lo) =>
        match lo.result with
        | some r =>
          let isAgg := match qy.stmt with
            | .aggregate _ => true
            | _ => false
          let ls := { ls with es := es, out := { ls.out with printed := ls.out.printed ++ printResult r isAgg } }
          if lo.reachedLimit then { ls with stop := true } else runFollow O qy stopAt rest ls
        | none => runFollow O qy stopAt rest { ls with es := es }
      | o => { ls with out := failWith ls.out o, stop := true }

/-- follow mode from the start: nothing is read when the limit is already reached (`LIMIT 0`) -/
def runFollowAll (O : Oracles) (qy : Query) (stopAt : Option Nat) (lines : List Line) : RunOut :=
  if reachedLimit qy {} then {} else (runFollow O qy stopAt lines {}).out

end Sqlgrep
