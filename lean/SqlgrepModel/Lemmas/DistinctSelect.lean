import SqlgrepModel.Lemmas.LimitSelect
/-
`tupleSame` spelled out: two tuples are the same iff they have the same length and are equal (`Value.beq`,
i.e. `==` of the implementation's `Value`) position by position.
-/
namespace Sqlgrep
open Sqlgrep.Spec.Select

theorem beqList_iff (a b : List Value) :
    Value.beqList a b = true ↔ a.length = b.length ∧ ∀ i (ha : i < a.length) (hb : i < b.length), Value.beq a[i] b[i] = true := by
  induction a generalizing b with
  | nil =>
    cases b with
    | nil => simp [Value.beqList]
    | cons y ys => simp [Value.beqList]
  | cons x xs ih =>
    cases b with
    | nil => simp [Value.beqList]
    | cons y ys =>
      simp only [Value.beqList, Bool.and_eq_true, ih, List.length_cons, Nat.add_right_cancel_iff]
      constructor
      · rintro ⟨hxy, hl, hall⟩
        refine ⟨hl, ?_⟩
        intro i ha hb
        cases i with
        | zero => exact hxy
        | succ i => exact hall i (by simpa using ha) (by simpa using hb)
      · rintro ⟨hl, hall⟩
        refine ⟨hall 0 (by simp) (by simp), hl, ?_⟩
        intro i ha hb
        exact hall (i + 1) (by simpa using ha) (by simpa using hb)

end Sqlgrep
