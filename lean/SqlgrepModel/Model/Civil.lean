/-
Proleptic Gregorian calendar arithmetic (chrono's `NaiveDate::from_ymd_opt`, `num_days_from_ce`,
`NaiveTime::from_hms_micro_opt` / `from_hms_nano_opt`) and sqlgrep's `create_timestamp` in UTC.

`0001-01-01` is day 1 (chrono's `num_days_from_ce`). All runs of the checks use `TZ=UTC`, where
`Local.from_local_datetime(..)` is the identity on the civil time.
-/
namespace Sqlgrep
namespace Civil

def isLeap (y : Int) : Bool := y % 4 == 0 && (y % 100 != 0 || y % 400 == 0)

def yearLen (y : Int) : Nat := if isLeap y then 366 else 365

/-- length of month `m` (1..12) of year `y`; 0 for anything else -/
def monthLen (y : Int) (m : Nat) : Nat :=
  match m with
  | 1 => 31 | 2 => if isLeap y then 29 else 28 | 3 => 31 | 4 => 30 | 5 => 31 | 6 => 30
  | 7 => 31 | 8 => 31 | 9 => 30 | 10 => 31 | 11 => 30 | 12 => 31 | _ => 0

/-- days of year `y` before the first of month `m` (1..12) -/
def daysBeforeMonth (y : Int) (m : Nat) : Nat :=
  let l : Nat := if isLeap y then 1 else 0
  match m with
  | 1 => 0 | 2 => 31 | 3 => 59 + l | 4 => 90 + l | 5 => 120 + l | 6 => 151 + l
  | 7 => 181 + l | 8 => 212 + l | 9 => 243 + l | 10 => 273 + l | 11 => 304 + l | 12 => 334 + l
  | _ => 0

/-- days from the common era before January 1st of year `y` (year 1 ↦ 0) -/
def daysBeforeYear (y : Int) : Int := 365 * (y - 1) + (y - 1) / 4 - (y - 1) / 100 + (y - 1) / 400

/-- chrono's year range of `NaiveDate` -/
def minYear : Int := -262143
def maxYear : Int := 262142

/-- `NaiveDate::from_ymd_opt(y, m, d).is_some()` -/
def validDate (y : Int) (m d : Nat) : Bool :=
  decide (minYear ≤ y) && decide (y ≤ maxYear) && decide (1 ≤ m) && decide (m ≤ 12) &&
  decide (1 ≤ d) && decide (d ≤ monthLen y m)

/-- `NaiveDate::num_days_from_ce` of a valid date -/
def daysFromCE (y : Int) (m d : Nat) : Int := daysBeforeYear y + (daysBeforeMonth y m : Int) + (d : Int)

/-- `NaiveTime::from_hms_nano_opt(h, mi, s, nano).is_some()` -/
def validTimeNano (h mi s nano : Nat) : Bool :=
  decide (h < 24) && decide (mi < 60) && decide (s < 60) &&
  (decide (nano < 1000000000) || (decide (s = 59) && decide (nano < 2000000000)))

/-! ### inverse: civil date of a day number (used to state that no field is altered) -/

/-- year containing day number `n` -/
def yearOfDays (n : Int) : Int :=
  let z := n - 1
  let q400 := z / 146097
  let r := z % 146097
  let c100 := if r / 36524 ≥ 4 then 3 else r / 36524
  let r2 := r - c100 * 36524
  let c4 := r2 / 1461
  let r3 := r2 % 1461
  let c1 := if r3 / 365 ≥ 4 then 3 else r3 / 365
  400 * q400 + 100 * c100 + 4 * c4 + c1 + 1

/-- month (1..12) of the `doy`-th day (1-based) of year `y` -/
def monthOfDoy (y : Int) (doy : Nat) : Nat :=
  if doy ≤ daysBeforeMonth y 2 then 1
  else if doy ≤ daysBeforeMonth y 3 then 2
  else if doy ≤ daysBeforeMonth y 4 then 3
  else if doy ≤ daysBeforeMonth y 5 then 4
  else if doy ≤ daysBeforeMonth y 6 then 5
  else if doy ≤ daysBeforeMonth y 7 then 6
  else if doy ≤ daysBeforeMonth y 8 then 7
  else if doy ≤ daysBeforeMonth y 9 then 8
  else if doy ≤ daysBeforeMonth y 10 then 9
  else if doy ≤ daysBeforeMonth y 11 then 10
  else if doy ≤ daysBeforeMonth y 12 then 11
  else 12

/-- (year, month, day) of a day number -/
def civilOfDays (n : Int) : Int × Nat × Nat :=
  let y := yearOfDays n
  let doy := (n - daysBeforeYear y).toNat
  let m := monthOfDoy y doy
  (y, m, doy - daysBeforeMonth y m)

end Civil
end Sqlgrep
