import SqlgrepModel.Spec.CsvGrammar
import SqlgrepModel.Lemmas.PrintCsv
import SqlgrepModel.Props.C17
/-
C17, the CSV clause — "in CSV format one header line with the column names precedes the first record and
every record has one field per column ... for text values free of delimiter, quote and line-break
characters" — against the record grammar of RFC 4180 (`Spec/CsvGrammar.lean`: `record = field *(COMMA
field)`, `field = *TEXTDATA`, with the delimiter in the place of COMMA; written from the RFC, importing
nothing of the model). `Props/C17.lean` states the field count through `splitOn`, a splitter defined for
that proof; here the statement is "the line is a `record` of the grammar whose fields are the rendered
cells", and the grammar's fields are unique (`csv_record_fields_unique`).
Header placement (exactly one, immediately before the first record) is `csv_header_once_before_first`
of `Props/C17.lean`; it is about the sequence of lines, not about their syntax.
-/
namespace Sqlgrep.Props.C17Csv
open Sqlgrep Sqlgrep.Print Sqlgrep.CsvGrammar

/-- a `record` of the grammar has one list of fields -/
theorem csv_record_fields_unique (d : Nat) (l : Bytes) (fs fs' : List Bytes)
    (h : Record d l fs) (h' : Record d l fs') : fs = fs' := record_unique h h'

/-- **Every CSV record is a `record` with one field per column.** For a one-byte delimiter that
`Display` never writes itself (`;` — the delimiter of `--format csv` —, tab, `|`): if every TEXT payload
of the row (cells and array elements at any depth) is free of the delimiter, `"`, CR and LF (the
property's guard; the `{:.2}` oracle text likewise), the record line is a `record` of RFC 4180 whose
fields are, in order, the rendered cells — as many as there are columns. -/
theorem printed_csv_record_is_csv (o : RealOracle) (d : Nat) (cols : List Bytes) (row : List Value)
    (hne : cols ≠ []) (hl : cols.length = row.length) (hd : ¬ Structural d)
    (htexts : ∀ v ∈ row, ∀ s ∈ allTexts v, CsvSafe d s) (hreal : ∀ b, CsvSafe d (o.fixed2 b)) :
    Record d (renderRecord o (.csv [d]) cols row) (row.map (displayValue o))
    ∧ (row.map (displayValue o)).length = cols.length := by
  rw [renderRecord_csv o [d] cols row hl]
  refine ⟨joinWith_record d _ ?_ ?_, by rw [List.length_map, hl]⟩
  · cases row with
    | nil => cases cols with
      | nil => exact absurd rfl hne
      | cons _ _ => simp at hl
    | cons _ _ => simp
  · intro c hc
    obtain ⟨v, hv, rfl⟩ := List.mem_map.mp hc
    exact displayValue_field o d v hd (htexts v hv) hreal

/-- the header line is a `record` whose fields are the column names (names free of delimiter, `"`, CR, LF) -/
theorem printed_csv_header_is_csv (d : Nat) (cols : List Bytes) (hne : cols ≠ [])
    (hn : ∀ n ∈ cols, CsvSafe d n) : Record d (joinWith [d] cols) cols :=
  joinWith_record d cols hne hn

/-- **The whole output of a CSV printer** (`printAll`, any sequence of `print` calls, any state): every
line handed to `println` is the blank separator, or a `record` of the grammar with exactly one field per
column of its result — the header with the column names, a data record with the rendered cells. -/
theorem printed_csv_lines_are_csv (o : RealOracle) (d : Nat) (first : Bool) (seq : List (ResultRow × Bool))
    (hd : ¬ Structural d) (hreal : ∀ b, CsvSafe d (o.fixed2 b))
    (hshape : ∀ cr ∈ allRows seq, cr.1 ≠ [] ∧ cr.1.length = cr.2.length)
    (hnames : ∀ cr ∈ allRows seq, ∀ n ∈ cr.1, CsvSafe d n)
    (htexts : ∀ cr ∈ allRows seq, ∀ v ∈ cr.2, ∀ s ∈ allTexts v, CsvSafe d s) :
    ∀ l ∈ printAll o (.csv [d]) first seq,
      l = .separator ∨ ∃ cr ∈ allRows seq, ∃ fs, Record d l.bytes fs ∧ fs.length = cr.1.length
        ∧ (fs = cr.1 ∨ fs = cr.2.map (displayValue o)) := by
  intro l hl
  cases mem_printAll_csv o [d] l first seq hl with
  | inl h => exact Or.inl h
  | inr h =>
    obtain ⟨cr, hcr, h⟩ := h
    obtain ⟨hne, hlen⟩ := hshape cr hcr
    refine Or.inr ⟨cr, hcr, ?_⟩
    cases h with
    | inl h => subst h; exact ⟨cr.1, printed_csv_header_is_csv d cr.1 hne (hnames cr hcr), rfl, Or.inl rfl⟩
    | inr h =>
      subst h
      obtain ⟨h1, h2⟩ := printed_csv_record_is_csv o d cr.1 cr.2 hne hlen hd (htexts cr hcr) hreal
      exact ⟨_, h1, h2, Or.inr rfl⟩

/-! ## non-vacuity -/

open Sqlgrep.Props.C17 in
-- a row with TEXT containing `'`, `,` and non-ASCII bytes, an array and a REAL, delimiter `;`
example : Record 59 (renderRecord o0 (.csv [59]) [[97], [98], [99]]
      [.text [39, 44, 195, 169], .array .text [.text [120], .null], .real 0])
    [[39, 39, 44, 195, 169, 39], [123, 39, 120, 39, 44, 32, 78, 85, 76, 76, 125], [49, 46, 53, 48]] :=
  (printed_csv_record_is_csv o0 59 _ _ (by decide) rfl (by decide) (by decide)
    (by intro b; show CsvSafe 59 [49, 46, 53, 48]; decide)).1

-- the guard is needed: a TEXT with the delimiter, a quote or a line break is not `TEXTDATA`
example : ¬ CsvSafe 59 [97, 59, 98] ∧ ¬ CsvSafe 59 [34] ∧ ¬ CsvSafe 59 [10] ∧ ¬ CsvSafe 59 [13] := by decide
example : ¬ Structural 59 ∧ ¬ Structural 9 ∧ ¬ Structural 124 := by decide
example : Record 59 [97, 59, 59, 98] [[97], [], [98]] :=
  .cons (f := [97]) (by decide) (.cons (f := []) (by decide) (.last (by decide)))

end Sqlgrep.Props.C17Csv
