import SqlgrepModel.Model.Value
import SqlgrepModel.Model.Text
import SqlgrepModel.Lemmas.ValueOrder
/-
UTF-8 byte order is code point order: the lexicographic comparison of the UTF-8 encodings of two strings
(`Value.cmpBytes`, the model of `impl Ord for str`, which is what `Value.cmp` does on TEXT) is the lexicographic
comparison of their code point sequences.
-/
namespace Sqlgrep
namespace Utf8
open Value

/-! ### `cmpBytes` is core's lexicographic `compare` on `List Nat` -/

theorem cmpBytes_eq_compare : ∀ (a b : List Nat), cmpBytes a b = compare a b
  | [], [] => by simp [cmpBytes]
  | [], _ :: _ => by simp [cmpBytes]
  | _ :: _, [] => by simp [cmpBytes]
  | x :: xs, y :: ys => by
    rw [cmpBytes, List.compare_cons_cons, cmpBytes_eq_compare xs ys]

theorem cmpBytes_cons_lt {x y : Nat} (s t : List Nat) (h : x < y) : cmpBytes (x :: s) (y :: t) = .lt := by
  rw [cmpBytes, Nat.compare_eq_lt.2 h]; rfl

theorem cmpBytes_cons_self (x : Nat) (s t : List Nat) : cmpBytes (x :: s) (x :: t) = cmpBytes s t := by
  rw [cmpBytes, Nat.compare_eq_eq.2 rfl]; rfl

theorem cmpBytes_append_left : ∀ (p s t : List Nat), cmpBytes (p ++ s) (p ++ t) = cmpBytes s t
  | [], _, _ => rfl
  | x :: p, s, t => by
    rw [List.cons_append, List.cons_append, cmpBytes_cons_self, cmpBytes_append_left p s t]

theorem lex2 {a1 a2 b1 b2 : Nat} (X Y : List Nat) (h : a1 < b1 ∨ (a1 = b1 ∧ a2 < b2)) :
    cmpBytes (a1 :: a2 :: X) (b1 :: b2 :: Y) = .lt := by
  rcases h with h | ⟨h, h'⟩
  · exact cmpBytes_cons_lt _ _ h
  · subst h; rw [cmpBytes_cons_self]; exact cmpBytes_cons_lt _ _ h'

theorem lex3 {a1 a2 a3 b1 b2 b3 : Nat} (X Y : List Nat)
    (h : a1 < b1 ∨ (a1 = b1 ∧ (a2 < b2 ∨ (a2 = b2 ∧ a3 < b3)))) :
    cmpBytes (a1 :: a2 :: a3 :: X) (b1 :: b2 :: b3 :: Y) = .lt := by
  rcases h with h | ⟨h, h'⟩
  · exact cmpBytes_cons_lt _ _ h
  · subst h; rw [cmpBytes_cons_self]; exact lex2 X Y h'

theorem lex4 {a1 a2 a3 a4 b1 b2 b3 b4 : Nat} (X Y : List Nat)
    (h : a1 < b1 ∨ (a1 = b1 ∧ (a2 < b2 ∨ (a2 = b2 ∧ (a3 < b3 ∨ (a3 = b3 ∧ a4 < b4)))))) :
    cmpBytes (a1 :: a2 :: a3 :: a4 :: X) (b1 :: b2 :: b3 :: b4 :: Y) = .lt := by
  rcases h with h | ⟨h, h'⟩
  · exact cmpBytes_cons_lt _ _ h
  · subst h; rw [cmpBytes_cons_self]; exact lex3 X Y h'

/-! ### one code point -/

/-- `encodeChar` as a function of the code point number -/
def encodeNat (n : Nat) : List Nat :=
  if n < 0x80 then [n]
  else if n < 0x800 then [0xC0 + n / 64, 0x80 + n % 64]
  else if n < 0x10000 then [0xE0 + n / 4096, 0x80 + n / 64 % 64, 0x80 + n % 64]
  else [0xF0 + n / 262144, 0x80 + n / 4096 % 64, 0x80 + n / 64 % 64, 0x80 + n % 64]

theorem encodeChar_eq (c : Char) : encodeChar c = encodeNat c.toNat := rfl

theorem encodeNat_cons (n : Nat) : ∃ x r, encodeNat n = x :: r := by
  unfold encodeNat
  split
  · exact ⟨_, _, rfl⟩
  · split
    · exact ⟨_, _, rfl⟩
    · split <;> exact ⟨_, _, rfl⟩

/-- a smaller code point has a smaller encoding, whatever follows: encodings of different lengths differ in the
lead byte (`0xxxxxxx` < `110xxxxx` < `1110xxxx` < `11110xxx`), encodings of one length are the base-64 digits of the
code point, most significant first. No range restriction is needed (holds for surrogates and beyond U+10FFFF too). -/
theorem encodeNat_lt (n m : Nat) (h : n < m) (X Y : List Nat) :
    cmpBytes (encodeNat n ++ X) (encodeNat m ++ Y) = .lt := by
  unfold encodeNat
  by_cases n1 : n < 0x80
  · rw [if_pos n1]
    by_cases m1 : m < 0x80
    · rw [if_pos m1]; exact cmpBytes_cons_lt _ _ h
    · rw [if_neg m1]
      by_cases m2 : m < 0x800
      · rw [if_pos m2]; exact cmpBytes_cons_lt _ _ (by omega)
      · rw [if_neg m2]
        by_cases m3 : m < 0x10000
        · rw [if_pos m3]; exact cmpBytes_cons_lt _ _ (by omega)
        · rw [if_neg m3]; exact cmpBytes_cons_lt _ _ (by omega)
  · rw [if_neg n1, if_neg (show ¬ m < 0x80 by omega)]
    by_cases n2 : n < 0x800
    · rw [if_pos n2]
      by_cases m2 : m < 0x800
      · rw [if_pos m2]; exact lex2 _ _ (by omega)
      · rw [if_neg m2]
        by_cases m3 : m < 0x10000
        · rw [if_pos m3]; exact cmpBytes_cons_lt _ _ (by omega)
        · rw [if_neg m3]; exact cmpBytes_cons_lt _ _ (by omega)
    · rw [if_neg n2, if_neg (show ¬ m < 0x800 by omega)]
      by_cases n3 : n < 0x10000
      · rw [if_pos n3]
        by_cases m3 : m < 0x10000
        · rw [if_pos m3]; exact lex3 _ _ (by omega)
        · rw [if_neg m3]; exact cmpBytes_cons_lt _ _ (by omega)
      · rw [if_neg n3, if_neg (show ¬ m < 0x10000 by omega)]
        exact lex4 _ _ (by omega)

/-! ### strings -/

theorem encode_cons (c : Char) (cs : List Char) : encode (c :: cs) = encodeNat c.toNat ++ encode cs := by
  simp [encode, encodeChar_eq]

/-- **UTF-8 byte order is code point order** -/
theorem cmpBytes_encode : ∀ (a b : List Char),
    cmpBytes (encode a) (encode b) = cmpBytes (a.map Char.toNat) (b.map Char.toNat)
  | [], [] => rfl
  | [], d :: ds => by
    obtain ⟨x, r, hx⟩ := encodeNat_cons d.toNat
    rw [encode_cons, hx]; rfl
  | c :: cs, [] => by
    obtain ⟨x, r, hx⟩ := encodeNat_cons c.toNat
    rw [encode_cons, hx]; rfl
  | c :: cs, d :: ds => by
    rw [encode_cons, encode_cons, List.map_cons, List.map_cons, cmpBytes]
    rcases Nat.lt_trichotomy c.toNat d.toNat with h | h | h
    · rw [encodeNat_lt _ _ h, Nat.compare_eq_lt.2 h]; rfl
    · rw [h, cmpBytes_append_left, Nat.compare_eq_eq.2 rfl, cmpBytes_encode cs ds]; rfl
    · rw [cmpBytes_swap (encodeNat d.toNat ++ encode ds), encodeNat_lt _ _ h, Nat.compare_eq_gt.2 h]; rfl

/-- the code point lists ordered by `cmpBytes` are ordered by the strings' own lexicographic `<` on characters -/
theorem cmpBytes_map_toNat_lt_iff : ∀ (a b : List Char),
    cmpBytes (a.map Char.toNat) (b.map Char.toNat) = .lt ↔ a < b
  | [], [] => by simp [cmpBytes]
  | [], _ :: _ => by simp [cmpBytes]
  | _ :: _, [] => by simp [cmpBytes]
  | c :: cs, d :: ds => by
    rw [List.map_cons, List.map_cons, cmpBytes, List.cons_lt_cons_iff, ← cmpBytes_map_toNat_lt_iff cs ds,
      Char.lt_def, UInt32.lt_iff_toNat_lt, ← Char.toNat_inj]
    show _ ↔ c.toNat < d.toNat ∨ _
    rcases Nat.lt_trichotomy c.toNat d.toNat with h | h | h
    · rw [Nat.compare_eq_lt.2 h]; simp [h]
    · rw [Nat.compare_eq_eq.2 h]; simp [h]
    · rw [Nat.compare_eq_gt.2 h]; simp; omega

theorem map_toNat_injective : ∀ (a b : List Char), a.map Char.toNat = b.map Char.toNat → a = b
  | [], [] => fun _ => rfl
  | [], _ :: _ => by simp
  | _ :: _, [] => by simp
  | c :: cs, d :: ds => by
    intro h
    simp only [List.map_cons, List.cons.injEq] at h
    rw [Char.toNat_inj.1 h.1, map_toNat_injective cs ds h.2]

/-- equal encodings only for equal strings -/
theorem encode_injective (a b : List Char) (h : encode a = encode b) : a = b := by
  have := cmpBytes_encode a b
  rw [h, (cmpBytes_eq_iff _ _).2 rfl] at this
  exact map_toNat_injective a b ((cmpBytes_eq_iff _ _).1 this.symm)

end Utf8
end Sqlgrep
