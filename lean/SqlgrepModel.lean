import SqlgrepModel.Model.Value
import SqlgrepModel.Lemmas.Order
import SqlgrepModel.Lemmas.ValueOrder
import SqlgrepModel.Props.C16
