import SqlgrepModel.Lemmas.NoiseStep
import SqlgrepModel.Lemmas.LimitAgg
/-
Noise invariance of the batch loop: the run over files equals, in everything but the line counters, the run over
the files without their noise lines (induction over the lines with a simulation relation between the two loops).
-/
namespace Sqlgrep
open Sqlgrep.Spec.Select

/-- two loop states that differ at most in the line counters -/
structure Sim (a b : LoopState) : Prop where
  es : a.es = b.es
  stop : a.stop = b.stop
  printed : a.out.printed = b.out.printed
  error : a.out.error = b.out.error
  panicked : a.out.panicked = b.out.panicked
  skipped : a.out.skipped = b.out.skipped

/-- two run outcomes that differ at most in `totalLines` -/
structure SameOut (a b : RunOut) : Prop where
  printed : a.printed = b.printed
  error : a.error = b.error
  panicked : a.panicked = b.panicked
  skipped : a.skipped = b.skipped

theorem SameOut.refl (a : RunOut) : SameOut a a := ⟨rfl, rfl, rfl, rfl⟩
theorem SameOut.symm {a b : RunOut} (h : SameOut a b) : SameOut b a := ⟨h.1.symm, h.2.symm, h.3.symm, h.4.symm⟩
theorem SameOut.trans {a b c : RunOut} (h : SameOut a b) (h' : SameOut b c) : SameOut a c :=
  ⟨h.1.trans h'.1, h.2.trans h'.2, h.3.trans h'.3, h.4.trans h'.4⟩

theorem Sim.sameOut {a b : LoopState} (h : Sim a b) : SameOut a.out b.out := ⟨h.printed, h.error, h.panicked, h.skipped⟩

theorem sameOut_failWith {α : Type} {a b : RunOut} (h : SameOut a b) (o : Outcome α) :
    SameOut (failWith a o) (failWith b o) := by
  cases o with
  | ok x => exact h
  | error k => exact ⟨h.1, rfl, h.3, h.4⟩
  | panic s => exact ⟨h.1, h.2, rfl, h.4⟩
  | oracleMissing s => exact ⟨h.1, h.2, h.3, rfl⟩

theorem hasFailed_sameOut {a b : RunOut} (h : SameOut a b) : hasFailed a = hasFailed b := by
  simp only [hasFailed, h.error, h.panicked, h.skipped]

/-- **the loop over one file**: with `flag` the limit flag as a function of the engine state, the loop over `fls`
and the loop over `fls` without its noise lines stay in simulation; a loop left without a stop leaves the flag
down -/
theorem runFile_noise (O : Oracles) (qy : Query) (idx : JoinIndex) (w : Bool) (flag : EngineState → Bool)
    (hflag : ∀ es es1 l lo, executeLine O qy idx w es l = .ok (es1, lo) → lo.reachedLimit = flag es1)
    (fls : List FileLine) (a b : LoopState) (hs : Sim a b) (h0 : flag a.es = false) :
    Sim (runFile O qy idx w none fls a) (runFile O qy idx w none (denoise fls) b) ∧
    ((runFile O qy idx w none fls a).stop = false → flag (runFile O qy idx w none fls a).es = false) := by
  induction fls generalizing a b with
  | nil => exact ⟨hs, fun _ => h0⟩
  | cons fl rest ih =>
    have hna : ((none : Option Nat) == some a.consumed) = false := rfl
    have hnb : ((none : Option Nat) == some b.consumed) = false := rfl
    by_cases hr : fl.readable = true
    · by_cases ha : anyResult fl.line.row = true
      · -- an admitted line: both loops execute it from the same engine state
        have hkeep : denoise (fl :: rest) = fl :: denoise rest := by
          simp [denoise, isNoise, hr, ha]
        rw [hkeep]
        cases hx : executeLine O qy idx w a.es fl.line with
        | ok p =>
          obtain ⟨es1, lo⟩ := p
          have hxb : executeLine O qy idx w b.es fl.line = .ok (es1, lo) := by rw [← hs.es]; exact hx
          rw [runFile_cons_ok O qy idx w fl rest a es1 lo hr hx, runFile_cons_ok O qy idx w fl (denoise rest) b es1 lo hr hxb]
          have hsim : Sim (advance a es1 lo) (advance b es1 lo) :=
            ⟨rfl, hs.stop, by simp only [advance, hs.printed], hs.error, hs.panicked, hs.skipped⟩
          by_cases hl : lo.reachedLimit = true
          · simp only [hl, if_true]
            exact ⟨⟨rfl, rfl, hsim.printed, hsim.error, hsim.panicked, hsim.skipped⟩, fun h => by cases h⟩
          · simp only [hl, Bool.false_eq_true, if_false]
            refine ih _ _ hsim ?_
            show flag es1 = false
            rw [← hflag a.es es1 fl.line lo hx]; simpa using hl
        | error k =>
          have hxb : executeLine O qy idx w b.es fl.line = .error k := by rw [← hs.es]; exact hx
          simp only [runFile, hna, hnb, hr, hx, hxb, Bool.not_true, Bool.false_eq_true, if_false]
          exact ⟨⟨hs.es, rfl, hs.printed, rfl, hs.panicked, hs.skipped⟩, fun h => by cases h⟩
        | panic s =>
          have hxb : executeLine O qy idx w b.es fl.line = .panic s := by rw [← hs.es]; exact hx
          simp only [runFile, hna, hnb, hr, hx, hxb, Bool.not_true, Bool.false_eq_true, if_false]
          exact ⟨⟨hs.es, rfl, hs.printed, hs.error, rfl, hs.skipped⟩, fun h => by cases h⟩
        | oracleMissing s =>
          have hxb : executeLine O qy idx w b.es fl.line = .oracleMissing s := by rw [← hs.es]; exact hx
          simp only [runFile, hna, hnb, hr, hx, hxb, Bool.not_true, Bool.false_eq_true, if_false]
          exact ⟨⟨hs.es, rfl, hs.printed, hs.error, hs.panicked, rfl⟩, fun h => by cases h⟩
      · -- a noise line: the first loop counts it and goes on from the same state, the second never sees it
        have ha' : anyResult fl.line.row = false := by simpa using ha
        have hdrop : denoise (fl :: rest) = denoise rest := by
          simp [denoise, isNoise, hr, ha']
        rw [hdrop]
        have hx := executeLine_noise O qy idx w a.es fl.line ha'
        have hfl : noiseFlag qy w a.es = false := by
          have := hflag a.es a.es fl.line _ hx
          simp only at this
          rw [this]; exact h0
        rw [hfl] at hx
        rw [runFile_cons_ok O qy idx w fl rest a _ _ hr hx]
        simp only [Bool.false_eq_true, if_false]
        refine ih _ b ⟨hs.es, hs.stop, ?_, hs.error, hs.panicked, hs.skipped⟩ h0
        simp only [advance, piece, List.append_nil]
        exact hs.printed
    · -- an unreadable line is not noise: both loops end with the read error
      have hr' : fl.readable = false := by simpa using hr
      have hkeep : denoise (fl :: rest) = fl :: denoise rest := by
        simp [denoise, isNoise, hr']
      rw [hkeep]
      simp only [runFile, hna, hnb, hr', Bool.not_false, Bool.false_eq_true, if_false, if_true]
      exact ⟨⟨hs.es, rfl, hs.printed, rfl, hs.panicked, hs.skipped⟩, fun h => by cases h⟩

/-- **the loop over the files** -/
theorem runFiles_noise (O : Oracles) (qy : Query) (idx : JoinIndex) (w : Bool) (flag : EngineState → Bool)
    (hflag : ∀ es es1 l lo, executeLine O qy idx w es l = .ok (es1, lo) → lo.reachedLimit = flag es1)
    (hreach : ∀ es, reachedLimit qy es = false → flag es = false)
    (files : List (List FileLine)) (a b : LoopState) (hs : Sim a b) :
    Sim (runFiles O qy idx w none files a) (runFiles O qy idx w none (files.map denoise) b) := by
  induction files generalizing a b with
  | nil => exact hs
  | cons f rest ih =>
    simp only [runFiles, List.map_cons, ← hs.es, ← hs.stop]
    by_cases hc : (a.stop || reachedLimit qy a.es) = true
    · simp only [hc, if_true]; exact hs
    · simp only [hc, Bool.false_eq_true, if_false]
      have h0 : flag a.es = false := by
        apply hreach
        cases h : reachedLimit qy a.es with
        | false => rfl
        | true => simp [h] at hc
      obtain ⟨h1, _⟩ := runFile_noise O qy idx w flag hflag f a b hs h0
      rw [← h1.stop]
      by_cases hst : (runFile O qy idx w none f a).stop = true
      · simp only [hst, if_true]; exact h1
      · simp only [hst, Bool.false_eq_true, if_false]
        exact ih _ _ h1

/-- **the whole batch run**: every statement kind, with or without join, LIMIT, DISTINCT -/
theorem runBatch_noise (O : Oracles) (qy : Query) (joined : List FileLine) (files : List (List FileLine)) :
    SameOut (runBatch O qy joined files none) (runBatch O qy (denoise joined) (files.map denoise) none) := by
  rw [runBatch_eq, runBatch_eq]
  have hj : joinIndexOf qy (denoise joined) = joinIndexOf qy joined := by
    unfold joinIndexOf
    cases qy.join with
    | none => rfl
    | some j => simp only [loadJoinFile_noise]
  rw [hj]
  cases joinIndexOf qy joined with
  | ok idx =>
    simp only [batchWithIndex]
    cases hq : qy.stmt with
    | select q =>
      have hsim := runFiles_noise O qy idx true (reachedLimit qy)
        (fun es es1 l lo hx => executeLine_select_reached O qy q hq idx true es es1 l lo hx) (fun _ h => h)
        files {} {} ⟨rfl, rfl, rfl, rfl, rfl, rfl⟩
      simp only [Bool.not_false]
      rw [← hasFailed_sameOut hsim.sameOut]
      split <;> exact hsim.sameOut
    | aggregate q =>
      have hsim := runFiles_noise O qy idx false (fun _ => false)
        (fun es es1 l lo hx => (executeLine_agg_update_out O qy hq idx es es1 l lo hx).2.1) (fun _ _ => rfl)
        files {} {} ⟨rfl, rfl, rfl, rfl, rfl, rfl⟩
      simp only [Bool.not_true]
      rw [← hasFailed_sameOut hsim.sameOut, ← hsim.es]
      split
      · exact hsim.sameOut
      · cases finalResult O q (runFiles O qy idx false none files {}).es with
        | ok r => exact ⟨by simp only [hsim.printed], hsim.error, hsim.panicked, hsim.skipped⟩
        | error k => exact sameOut_failWith hsim.sameOut _
        | panic s => exact sameOut_failWith hsim.sameOut _
        | oracleMissing s => exact sameOut_failWith hsim.sameOut _
  | error k => exact SameOut.refl _
  | panic s => exact SameOut.refl _
  | oracleMissing s => exact SameOut.refl _

/-! ### files without lines -/

/-- the files that hold at least one line -/
def dropEmpty (files : List (List FileLine)) : List (List FileLine) := files.filter (fun f => !f.isEmpty)

theorem runFiles_nil_file (O : Oracles) (qy : Query) (idx : JoinIndex) (w : Bool) (stopAt : Option Nat)
    (rest : List (List FileLine)) (ls : LoopState) :
    runFiles O qy idx w stopAt ([] :: rest) ls = runFiles O qy idx w stopAt rest ls := by
  simp only [runFiles, runFile]
  by_cases hc : (ls.stop || reachedLimit qy ls.es) = true
  · simp only [hc, if_true]
    cases rest with
    | nil => rfl
    | cons f r => simp only [runFiles, hc, if_true]
  · simp only [hc, Bool.false_eq_true, if_false]
    have hs : ls.stop = false := by
      cases h : ls.stop with
      | false => rfl
      | true => simp [h] at hc
    simp [hs]

/-- files without lines (also: files that consist of noise only, once denoised) are invisible -/
theorem runFiles_dropEmpty (O : Oracles) (qy : Query) (idx : JoinIndex) (w : Bool) (stopAt : Option Nat)
    (files : List (List FileLine)) (ls : LoopState) :
    runFiles O qy idx w stopAt (dropEmpty files) ls = runFiles O qy idx w stopAt files ls := by
  induction files generalizing ls with
  | nil => rfl
  | cons f rest ih =>
    cases f with
    | nil =>
      rw [runFiles_nil_file]
      exact ih ls
    | cons x xs =>
      have : dropEmpty ((x :: xs) :: rest) = (x :: xs) :: dropEmpty rest := rfl
      rw [this]
      simp only [runFiles, ih]

theorem runBatch_dropEmpty (O : Oracles) (qy : Query) (joined : List FileLine) (files : List (List FileLine)) :
    runBatch O qy joined (dropEmpty files) none = runBatch O qy joined files none := by
  rw [runBatch_eq, runBatch_eq]
  cases joinIndexOf qy joined with
  | ok idx => simp only [batchWithIndex, runFiles_dropEmpty]
  | error k => rfl
  | panic s => rfl
  | oracleMissing s => rfl

end Sqlgrep
