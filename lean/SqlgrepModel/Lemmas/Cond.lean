import SqlgrepModel.Model.Eval
/-
Conditions (`condHolds`, = `condition_holds` of expression_execution.rs): the facts every proof about WHERE / HAVING /
AND / OR / CASE WHEN needs, and the one-step unfoldings of the two evaluator nodes that evaluate conditions.
-/
namespace Sqlgrep

@[simp] theorem condHolds_bool (b : Bool) : condHolds (.bool b) = .ok b := rfl
@[simp] theorem condHolds_null : condHolds .null = .ok false := rfl

/-- a condition has a truth value exactly when it is a BOOLEAN (its value) or NULL (does not hold) -/
theorem condHolds_ok_iff (v : Value) (b : Bool) :
    condHolds v = .ok b ↔ v = .bool b ∨ (v = .null ∧ b = false) := by
  cases v <;> simp [condHolds, eq_comm]

/-- the only way a condition fails is the type error, and it fails exactly for a non-BOOLEAN, non-NULL value -/
theorem condHolds_error_iff (v : Value) (k : ErrKind) :
    condHolds v = .error k ↔ k = .typeError ∧ v ≠ .null ∧ ∀ b, v ≠ .bool b := by
  cases v <;> simp [condHolds, eq_comm]

theorem condHolds_typeError (v : Value) (hn : v ≠ .null) (hb : ∀ b, v ≠ .bool b) : condHolds v = .error .typeError :=
  (condHolds_error_iff v _).2 ⟨rfl, hn, hb⟩

theorem condHolds_not_panic (v : Value) (s : String) : condHolds v ≠ .panic s := by
  cases v <;> simp [condHolds]

theorem condHolds_not_missing (v : Value) (w : String) : condHolds v ≠ .oracleMissing w := by
  cases v <;> simp [condHolds]

/-- the result of `condHolds`, by cases: a truth value or the type error -/
theorem condHolds_cases (v : Value) : (∃ b, condHolds v = .ok b) ∨ condHolds v = .error .typeError := by
  cases v <;> simp [condHolds]

/-- one step of AND / OR: the left operand is a condition; the right one is evaluated (and must be a condition) exactly
when the left one does not decide -/
theorem eval_boolOp (O : Oracles) (env : Env) (isAnd : Bool) (l r : Expr) :
    eval O env (.boolOp isAnd l r) =
      (eval O env l).bind (fun lv => (condHolds lv).bind (fun lb =>
        if lb = isAnd then
          (eval O env r).bind (fun rv => (condHolds rv).bind (fun rb => .ok (.bool rb)))
        else .ok (.bool lb))) := by
  simp only [eval, bind, pure]
  cases hl : eval O env l with
  | ok lv =>
    simp only [Outcome.bind]
    cases hc : condHolds lv with
    | ok lb => cases lb <;> cases isAnd <;> simp
    | error k => rfl
    | panic s => rfl
    | oracleMissing w => rfl
  | error k => rfl
  | panic s => rfl
  | oracleMissing w => rfl

/-- one step of CASE: the WHEN expression is a condition -/
theorem evalCase_cons (O : Oracles) (env : Env) (c r : Expr) (rest : List (Expr × Expr)) :
    evalCase O env ((c, r) :: rest) =
      (eval O env c).bind (fun cv => (condHolds cv).bind (fun cb =>
        if cb then (eval O env r).bind (fun v => .ok (some v)) else evalCase O env rest)) := by
  simp only [evalCase, bind, pure]

end Sqlgrep
