import SqlgrepModel.Lemmas.IterOrderEngine
import SqlgrepModel.Model.Pipeline
/-
C18 — output is deterministic and independent of hash seeds.

The model is a pure function of (statement, table infos, lines): running it twice gives the same answer by
construction. Which *other* tables are defined is visible only to the end-to-end model (`Model/Pipeline.lean`:
`addTables` / `getTable`); the last section shows that a run looks at the definitions of the queried and the joined
table only. What a hash seed can change in the real program is the
order in which a `HashMap` is *iterated*. The engines iterate exactly one hash map: the inner
`HashMap<usize, GroupAggregator>` of every group in the first loop of `execute_result` (percentile
aggregators publish their value); every other hash map (`columns`, join index, DISTINCT memory, COUNT(DISTINCT)
sets, group values) is only inserted into and looked up. The model lists the entries of those inner maps in
insertion order. The theorems below say that this choice is immaterial: let an adversary re-list the entries of
every inner map, in any order, before every single input line and before the final result — the printed
output, the line count and the error status are the same. Hence one answer per input, which is what the
correspondence check compares the implementation against, in this process and in fresh processes with fresh
SipHash keys.
-/
namespace Sqlgrep.Props.C18
open Sqlgrep Sqlgrep.Iter

/-- `f` re-lists the entries of the inner hash maps of an aggregation state (any order, e.g. the order another
hash seed would produce) without changing the maps -/
def IsShuffle (f : AggState → AggState) : Prop := ∀ a b, StRel a b → StRel (f a) b

/-- `runFile` (the batch loop over one file) with the aggregation state re-listed by `sh n` before the line
with running number `n` is executed -/
def runFileWith (sh : Nat → AggState → AggState) (O : Oracles) (qy : Query) (idx : JoinIndex) (withResult : Bool)
    (stopAt : Option Nat) : List FileLine → LoopState → LoopState
  | [], ls => ls
  | fl :: rest, ls =>
    if stopAt == some ls.consumed then ls
    else if !fl.readable then { ls with out := { ls.out with error := some .failReadFile }, stop := true }
    else
      let es0 : EngineState := { ls.es with agg := sh ls.consumed ls.es.agg }
      let ls := { ls with consumed := ls.consumed + 1, out := { ls.out with totalLines := ls.out.totalLines + 1 } }
      match executeLine O qy idx withResult es0 fl.line with
      | .ok (es, lo) =>
        let printed := match lo.result with
          | some r => printResult r false
          | none => []
        let ls := { ls with es := es, out := { ls.out with printed := ls.out.printed ++ printed } }
        if lo.reachedLimit then { ls with stop := true } else runFileWith sh O qy idx withResult stopAt rest ls
      | o => { ls with out := failWith ls.out o, stop := true }

def runFilesWith (sh : Nat → AggState → AggState) (O : Oracles) (qy : Query) (idx : JoinIndex) (withResult : Bool)
    (stopAt : Option Nat) : List (List FileLine) → LoopState → LoopState
  | [], ls => ls
  | f :: rest, ls =>
    if ls.stop || reachedLimit qy ls.es then ls
    else
      let ls := runFileWith sh O qy idx withResult stopAt f ls
      if ls.stop then ls else runFilesWith sh O qy idx withResult stopAt rest ls

/-- `runBatch` with the adversary re-listing the hash maps before every line and before the final result -/
def runBatchWith (sh : Nat → AggState → AggState) (O : Oracles) (qy : Query) (joined : List FileLine)
    (files : List (List FileLine)) (stopAt : Option Nat) : RunOut :=
  let idxO : Outcome JoinIndex := match qy.join with
    | some j => setupJoin qy.table j (loadJoinFile j joined)
    | none => .ok []
  match idxO with
  | .ok idx =>
    let isAgg := match qy.stmt with
      | .aggregate _ => true
      | _ => false
    let ls := runFilesWith sh O qy idx (!isAgg) stopAt files {}
    if hasFailed ls.out then ls.out
    else match qy.stmt with
      | .aggregate q =>
        match finalResult O q { ls.es with agg := sh ls.consumed ls.es.agg } with
        | .ok r => { ls.out with printed := ls.out.printed ++ printResult r true }
        | o => failWith ls.out o
      | _ => ls.out
  | o => failWith {} o

structure LRel (a b : LoopState) : Prop where
  es : ERel a.es b.es
  out : a.out = b.out
  consumed : a.consumed = b.consumed
  stop : a.stop = b.stop

theorem runFileWith_rel (sh : Nat → AggState → AggState) (hs : ∀ n, IsShuffle (sh n)) (O : Oracles) (qy : Query)
    (idx : JoinIndex) (w : Bool) (stopAt : Option Nat) (f : List FileLine) {a b : LoopState} (h : LRel a b) :
    LRel (runFileWith sh O qy idx w stopAt f a) (runFile O qy idx w stopAt f b) := by
  induction f generalizing a b with
  | nil => exact h
  | cons fl rest ih =>
    unfold runFileWith runFile
    rw [h.consumed]
    by_cases hstop : (stopAt == some b.consumed) = true
    · simp only [hstop, if_true]; exact h
    · simp only [hstop, if_false]
      by_cases hr : fl.readable = true
      · simp only [hr, Bool.not_true, Bool.false_eq_true, if_false]
        have he : ERel { a.es with agg := sh b.consumed a.es.agg } b.es :=
          ⟨h.es.seen, hs _ _ _ h.es.agg, h.es.numOut⟩
        have hx := executeLine_rel O qy idx w he fl.line
        cases hx1 : executeLine O qy idx w { a.es with agg := sh b.consumed a.es.agg } fl.line <;>
          cases hx2 : executeLine O qy idx w b.es fl.line <;> rw [hx1, hx2] at hx <;> simp only [ORel] at hx
        · rename_i p1 p2
          obtain ⟨es1, lo1⟩ := p1
          obtain ⟨es2, lo2⟩ := p2
          have hlo : lo1 = lo2 := hx.2
          subst hlo
          simp only [h.out]
          by_cases hl : lo1.reachedLimit = true
          · simp only [hl, if_true]
            exact ⟨hx.1, rfl, rfl, rfl⟩
          · simp only [hl, if_false]
            exact ih ⟨hx.1, rfl, rfl, h.stop⟩
        · subst hx; simp only [h.out]; exact ⟨h.es, rfl, rfl, rfl⟩
        · subst hx; simp only [h.out]; exact ⟨h.es, rfl, rfl, rfl⟩
        · subst hx; simp only [h.out]; exact ⟨h.es, rfl, rfl, rfl⟩
      · have : fl.readable = false := by simpa using hr
        simp [this, h.out]
        exact ⟨h.es, rfl, rfl, rfl⟩

theorem runFilesWith_rel (sh : Nat → AggState → AggState) (hs : ∀ n, IsShuffle (sh n)) (O : Oracles) (qy : Query)
    (idx : JoinIndex) (w : Bool) (stopAt : Option Nat) (fs : List (List FileLine)) {a b : LoopState} (h : LRel a b) :
    LRel (runFilesWith sh O qy idx w stopAt fs a) (runFiles O qy idx w stopAt fs b) := by
  induction fs generalizing a b with
  | nil => exact h
  | cons f rest ih =>
    unfold runFilesWith runFiles
    rw [h.stop, reachedLimit_rel qy h.es]
    by_cases hc : (b.stop || reachedLimit qy b.es) = true
    · simp only [hc, if_true]; exact h
    · simp only [hc, if_false]
      have h1 := runFileWith_rel sh hs O qy idx w stopAt f h
      simp only [h1.stop]
      by_cases hs2 : (runFile O qy idx w stopAt f b).stop = true
      · simp only [hs2, if_true]; exact h1
      · simp only [hs2, if_false]; exact ih h1

theorem LRel.init : LRel {} {} := ⟨⟨rfl, StRel.init, rfl⟩, rfl, rfl, rfl⟩

/-- **C18, hash-seed independence.** Whatever order the entries of the inner hash maps are listed in — chosen
afresh by an adversary before every input line and before the final result — a batch run prints the same
records, counts the same lines and ends with the same status as the model's reference run. -/
theorem output_independent_of_iteration_order (sh : Nat → AggState → AggState) (hs : ∀ n, IsShuffle (sh n))
    (O : Oracles) (qy : Query) (joined : List FileLine) (files : List (List FileLine)) (stopAt : Option Nat) :
    runBatchWith sh O qy joined files stopAt = runBatch O qy joined files stopAt := by
  unfold runBatchWith runBatch
  cases hq : qy.stmt with
  | select q =>
    have h := fun idx => runFilesWith_rel sh hs O qy idx (!false) stopAt files LRel.init
    cases hj : qy.join with
    | none => dsimp only; rw [(h []).out]
    | some j =>
      dsimp only
      cases setupJoin qy.table j (loadJoinFile j joined) with
      | ok idx => dsimp only; rw [(h idx).out]
      | _ => rfl
  | aggregate q =>
    have h := fun idx => runFilesWith_rel sh hs O qy idx (!true) stopAt files LRel.init
    have hfin := fun idx => finalResult_rel O q
      (e1 := { (runFilesWith sh O qy idx (!true) stopAt files {}).es with
        agg := sh (runFilesWith sh O qy idx (!true) stopAt files {}).consumed (runFilesWith sh O qy idx (!true) stopAt files {}).es.agg })
      (e2 := (runFiles O qy idx (!true) stopAt files {}).es) (hs _ _ _ (h idx).es.agg)
    cases hj : qy.join with
    | none => dsimp only; rw [(h []).out, hfin []]; rfl
    | some j =>
      dsimp only
      cases setupJoin qy.table j (loadJoinFile j joined) with
      | ok idx => dsimp only; rw [(h idx).out, hfin idx]; rfl
      | _ => rfl

/-- two runs under any two iteration-order adversaries agree -/
theorem any_two_iteration_orders_agree (sh1 sh2 : Nat → AggState → AggState) (h1 : ∀ n, IsShuffle (sh1 n))
    (h2 : ∀ n, IsShuffle (sh2 n)) (O : Oracles) (qy : Query) (joined : List FileLine) (files : List (List FileLine))
    (stopAt : Option Nat) :
    runBatchWith sh1 O qy joined files stopAt = runBatchWith sh2 O qy joined files stopAt := by
  rw [output_independent_of_iteration_order sh1 h1, output_independent_of_iteration_order sh2 h2]

/-- the loop that iterates a hash map: publishing the percentile values over any permutation of a group's
aggregator entries yields the same maps -/
theorem publish_order_irrelevant (key : List Value) (l1 l2 : List (Nat × Aggregator)) (p : l1.Perm l2)
    (hn : (l1.map (·.1)).Nodup) (a b : AggState) (h : StRel a b) :
    StRel (l1.foldl (pubStep key) a) (l2.foldl (pubStep key) b) :=
  foldl_pubStep_perm key p hn h

/-- a result computed from two listings of the same state is the same table -/
theorem result_independent_of_listing (O : Oracles) (q : AggStmt) (a b : EngineState) (h : StRel a.agg b.agg) :
    finalResult O q a = finalResult O q b := finalResult_rel O q h

/-! Non-vacuity: reversing every inner map is a shuffle, and it does change the listing. -/

def reverseInner {α : Type} (m : GroupMap α) : GroupMap α := m.map (fun g => (g.1, g.2.reverse))
def reverseAll (st : AggState) : AggState := { aggs := reverseInner st.aggs, vals := reverseInner st.vals }

theorem reverseInner_rel {α : Type} {m1 m2 : GroupMap α} (h : GmEq m1 m2) : GmEq (reverseInner m1) m2 := by
  induction h with
  | nil => exact .nil
  | @cons k s1 s2 r1 r2 hs _ ih =>
    refine .cons ?_ ih
    have hp : s1.reverse.Perm s1 := List.reverse_perm s1
    have hn := (List.Perm.map (·.1) hp.symm).nodup hs.2.1
    exact (SubRel.of_perm hp hn).trans hs

theorem reverseAll_isShuffle : IsShuffle reverseAll :=
  fun _ _ h => ⟨reverseInner_rel h.aggs, reverseInner_rel h.vals⟩

example : reverseAll { aggs := [([.int 1], [(0, .sum (.int 3)), (1, .percentile [.int 2] 0)])], vals := [] } ≠
    { aggs := [([.int 1], [(0, .sum (.int 3)), (1, .percentile [.int 2] 0)])], vals := [] } := by
  simp [reverseAll, reverseInner]

example : ∀ n : Nat, IsShuffle ((fun _ => reverseAll) n) := fun _ => reverseAll_isShuffle

/-! `*` expands to the columns in definition order (queried table, then the joined table) -/

/-- without a join, the key list a line presents to `SELECT *` is the table's column list in definition order -/
theorem wildcard_keys_definition_order (qy : Query) (idx : JoinIndex) (b : Bool) (l : Line) (hj : qy.join = none) :
    (lineEnvs qy idx b l) = .ok [(envOfInsertions (columnsMapping qy.table l.row l.text), qy.table.columns)] := by
  unfold lineEnvs
  rw [hj]

/-- `SELECT *` names its output columns by that key list, in that order -/
theorem wildcard_names (O : Oracles) (q : SelectStmt) (seen : List (List Value)) (env : Env) (keys : List String)
    (hw : q.wildcard = true) (seen' : List (List Value)) (out : RowOut)
    (h : selectOne O q seen env keys = .ok (seen', some out)) : out.columns = keys := by
  unfold selectOne at h
  simp only [hw, if_true] at h
  obtain ⟨valid, _, h⟩ := bind_eq_ok h
  cases valid with
  | false => simp [pure] at h
  | true =>
    simp only [Bool.not_true, Bool.false_eq_true, if_false] at h
    obtain ⟨vals, _, h⟩ := bind_eq_ok h
    by_cases hd : q.distinct = true
    · simp only [hd, if_true] at h
      by_cases hfresh : (distinctAdd seen vals).2 = true
      · simp only [hfresh, if_true, pure, Outcome.ok.injEq, Prod.mk.injEq, Option.some.injEq] at h
        rw [← h.2]
      · simp [hfresh, pure] at h
    · simp [hd, pure] at h
      rw [← h.2]

/-! ### "irrespective of which other tables are defined" -/

open Sqlgrep.Pipeline in
/-- looking a table up depends only on the definitions that carry that name -/
theorem lookup_depends_on_same_named_tables (ts : List Table) (name : String) :
    getTable ts name = getTable (ts.filter (fun t => t.name == name)) name := by
  unfold getTable
  rw [← List.filter_reverse]
  generalize ts.reverse = l
  induction l with
  | nil => rfl
  | cons t l ih =>
    by_cases h : (t.name == name) = true
    · simp [List.filter, List.find?, h]
    · have h' : (t.name == name) = false := by simpa using h
      simp only [List.filter, List.find?, h']
      exact ih

open Sqlgrep.Pipeline in
/-- defining further tables under other names — before, between or after the ones a statement uses — changes nothing:
the run of a statement over table lists that agree on the definitions named like the queried table and like the
joined table is the same run -/
theorem other_tables_irrelevant (F : Facts) (ts1 ts2 : List Table) (stmt : Stmt) (fromTable : String) (join : Option LJoin)
    (files : List (List Nat))
    (hfrom : ts1.filter (fun t => t.name == fromTable) = ts2.filter (fun t => t.name == fromTable))
    (hjoin : ∀ j, join = some j → ts1.filter (fun t => t.name == j.joinedTable) = ts2.filter (fun t => t.name == j.joinedTable)) :
    runStatement F ts1 stmt fromTable join files = runStatement F ts2 stmt fromTable join files := by
  have e1 : getTable ts1 fromTable = getTable ts2 fromTable := by
    rw [lookup_depends_on_same_named_tables ts1, lookup_depends_on_same_named_tables ts2, hfrom]
  unfold runStatement
  rw [e1]
  cases join with
  | none => cases getTable ts2 fromTable <;> rfl
  | some j =>
    have e2 : getTable ts1 j.joinedTable = getTable ts2 j.joinedTable := by
      rw [lookup_depends_on_same_named_tables ts1, lookup_depends_on_same_named_tables ts2, hjoin j rfl]
    cases getTable ts2 fromTable with
    | none => rfl
    | some t => simp only [e2]

open Sqlgrep.Pipeline in
/-- in particular: appending or prepending any tables with other names -/
theorem extra_tables_irrelevant (F : Facts) (ts pre post : List Table) (stmt : Stmt) (fromTable : String) (join : Option LJoin)
    (files : List (List Nat))
    (hpre : ∀ t ∈ pre ++ post, t.name ≠ fromTable ∧ ∀ j, join = some j → t.name ≠ j.joinedTable) :
    runStatement F (pre ++ ts ++ post) stmt fromTable join files = runStatement F ts stmt fromTable join files := by
  have drop : ∀ (n : String), (∀ t ∈ pre ++ post, t.name ≠ n) →
      (pre ++ ts ++ post).filter (fun t => t.name == n) = ts.filter (fun t => t.name == n) := by
    intro n hn
    have hp : pre.filter (fun t => t.name == n) = [] := by
      rw [List.filter_eq_nil_iff]; intro t ht; simpa using hn t (List.mem_append_left _ ht)
    have hq : post.filter (fun t => t.name == n) = [] := by
      rw [List.filter_eq_nil_iff]; intro t ht; simpa using hn t (List.mem_append_right _ ht)
    simp [List.filter_append, hp, hq]
  apply other_tables_irrelevant
  · exact drop fromTable (fun t ht => (hpre t ht).1)
  · intro j hj
    exact drop j.joinedTable (fun t ht => (hpre t ht).2 j hj)

end Sqlgrep.Props.C18
