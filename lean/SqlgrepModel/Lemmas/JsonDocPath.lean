import SqlgrepModel.Lemmas.JsonNumLit
/-
Following a JSON path through the TEXT's tree (`JsonDoc.LVal`: the RFC 8259 parse of the line with the number literals
kept; `LVal.erase` is the grammar's denotation) and through the document (`Json`, what `serde_json::from_str` hands to
`get_value`) is the same walk:

* `followL` / `followV`: a field step takes the LAST member of that name (serde_json's `Map::insert` lets a repeated key
  keep its first position and take the last value: `lookup_dedupe`), an index step the element at that position;
* `followPath_iff_followL`: the document has `v` at a path exactly when the text's tree has a sub-tree there whose
  document is `v`;
* `followPath_num`: a number found at a path is serde_json's reading of THE number literal the path addresses in the text;
* `followL_erase`: the walk commutes with forgetting the lexemes (so it can be read on the grammar's denotation).
-/
namespace Sqlgrep.JsonDoc
open Sqlgrep.JsonGrammar

/-- the member a name addresses in an object text: the last member whose name (as UTF-8 bytes) is `name` -/
def lastMember (name : List Nat) : List (List Char × LVal) → Option LVal
  | [] => none
  | (k, x) :: ms =>
    match lastMember name ms with
    | some y => some y
    | none => if Utf8.encode k = name then some x else none

/-- one path step in the text's tree -/
def LVal.step : LVal → JsonStep → Option LVal
  | .obj ms, .field name => lastMember name ms
  | .arr xs, .index i => xs[i]?
  | _, _ => none

/-- following a path through the text's tree -/
def followL : List JsonStep → LVal → Option LVal
  | [], l => some l
  | s :: rest, l =>
    match l.step s with
    | some v => followL rest v
    | none => none

/-- the same walk on the grammar's denotation -/
def lastMemberV (name : List Nat) : List (List Char × JVal) → Option JVal
  | [] => none
  | (k, x) :: ms =>
    match lastMemberV name ms with
    | some y => some y
    | none => if Utf8.encode k = name then some x else none

def stepV : JVal → JsonStep → Option JVal
  | .obj ms, .field name => lastMemberV name ms
  | .arr xs, .index i => xs[i]?
  | _, _ => none

def followV : List JsonStep → JVal → Option JVal
  | [], l => some l
  | s :: rest, l =>
    match stepV l s with
    | some v => followV rest v
    | none => none

/-! ### `Map::insert` keeps the last value of a repeated key -/

theorem lookup_insertMember (m : List (List Nat × Json)) (k name : List Nat) (v : Json) :
    (insertMember m k v).lookup name = if k = name then some v else m.lookup name := by
  induction m with
  | nil =>
    simp only [insertMember, List.lookup_cons, List.lookup_nil]
    by_cases h : k = name
    · subst h; simp
    · have : (name == k) = false := by simp; exact fun e => h e.symm
      simp [h, this]
  | cons kv m ih =>
    obtain ⟨k', v'⟩ := kv
    rw [insertMember]
    by_cases hk : k' = k
    · subst hk
      rw [if_pos rfl]
      simp only [List.lookup_cons]
      by_cases h : k' = name
      · subst h; simp
      · have : (name == k') = false := by simp; exact fun e => h e.symm
        simp [h, this]
    · rw [if_neg hk]
      simp only [List.lookup_cons, ih]
      by_cases h : k = name
      · subst h
        have : (k == k') = false := by simp; exact fun e => hk e.symm
        simp [this]
      · simp [h]

/-- the last pair of that name in a member list -/
def lastKV (name : List Nat) : List (List Nat × Json) → Option Json
  | [] => none
  | (k, v) :: kvs =>
    match lastKV name kvs with
    | some y => some y
    | none => if k = name then some v else none

theorem lookup_dedupe (kvs : List (List Nat × Json)) (acc : List (List Nat × Json)) (name : List Nat) :
    (kvs.foldl (fun m kv => insertMember m kv.1 kv.2) acc).lookup name =
      match lastKV name kvs with
      | some y => some y
      | none => acc.lookup name := by
  induction kvs generalizing acc with
  | nil => rfl
  | cons kv kvs ih =>
    obtain ⟨k, v⟩ := kv
    rw [List.foldl_cons, ih, lastKV, lookup_insertMember]
    cases lastKV name kvs with
    | some y => rfl
    | none =>
      by_cases h : k = name
      · simp [h]
      · simp [h]

/-! ### elements and members of a convertible tree -/

theorem toJsonList_get : ∀ (xs : List LVal) (vs : List Json), toJsonList xs = some vs → ∀ i : Nat,
    (xs[i]? = none → vs[i]? = none) ∧ (∀ x, xs[i]? = some x → ∃ v, toJson x = some v ∧ vs[i]? = some v)
  | [], vs, h, i => by
    simp only [toJsonList, Option.some.injEq] at h; subst h
    exact ⟨fun _ => rfl, fun x hx => by simp at hx⟩
  | x :: xs, vs, h, i => by
    rw [toJsonList] at h
    cases h1 : toJson x with
    | none => rw [h1] at h; simp at h
    | some v =>
      cases h2 : toJsonList xs with
      | none => rw [h1, h2] at h; simp at h
      | some vs' =>
        rw [h1, h2] at h
        simp only [Option.some.injEq] at h; subst h
        cases i with
        | zero =>
          refine ⟨fun hn => (by simp at hn), fun y hy => ?_⟩
          simp only [List.getElem?_cons_zero, Option.some.injEq] at hy; subst hy
          exact ⟨v, h1, rfl⟩
        | succ i =>
          simp only [List.getElem?_cons_succ]
          exact toJsonList_get xs vs' h2 i

theorem toJsonMembers_last : ∀ (ms : List (List Char × LVal)) (kvs : List (List Nat × Json)),
    toJsonMembers ms = some kvs → ∀ name,
    (lastMember name ms = none → lastKV name kvs = none) ∧
    (∀ x, lastMember name ms = some x → ∃ v, toJson x = some v ∧ lastKV name kvs = some v)
  | [], kvs, h, name => by
    simp only [toJsonMembers, Option.some.injEq] at h; subst h
    exact ⟨fun _ => rfl, fun x hx => by simp [lastMember] at hx⟩
  | (k, x) :: ms, kvs, h, name => by
    rw [toJsonMembers] at h
    cases h1 : toJson x with
    | none => rw [h1] at h; simp at h
    | some v =>
      cases h2 : toJsonMembers ms with
      | none => rw [h1, h2] at h; simp at h
      | some kvs' =>
        rw [h1, h2] at h
        simp only [Option.some.injEq] at h; subst h
        have ih := toJsonMembers_last ms kvs' h2 name
        rw [lastMember, lastKV]
        cases hl : lastMember name ms with
        | some y =>
          obtain ⟨w, hw1, hw2⟩ := ih.2 y hl
          rw [hw2]
          exact ⟨fun hn => (by cases hn), fun z hz => (by cases hz; exact ⟨w, hw1, rfl⟩)⟩
        | none =>
          rw [ih.1 hl]
          by_cases hk : Utf8.encode k = name
          · simp only [hk, if_true]
            exact ⟨fun hn => (by cases hn), fun z hz => (by cases hz; exact ⟨v, h1, rfl⟩)⟩
          · simp only [hk, if_false]
            exact ⟨fun _ => trivial, fun z hz => (by cases hz)⟩

/-! ### one step, and a whole path -/

theorem step_toJson (l : LVal) (j : Json) (h : toJson l = some j) (s : JsonStep) :
    (l.step s = none → JsonAccess.step j s = none) ∧
    (∀ l', l.step s = some l' → ∃ j', toJson l' = some j' ∧ JsonAccess.step j s = some j') := by
  cases l with
  | null => simp only [toJson, Option.some.injEq] at h; subst h; cases s <;> exact ⟨fun _ => rfl, fun _ hx => by cases hx⟩
  | bool b => simp only [toJson, Option.some.injEq] at h; subst h; cases s <;> exact ⟨fun _ => rfl, fun _ hx => by cases hx⟩
  | str t => simp only [toJson, Option.some.injEq] at h; subst h; cases s <;> exact ⟨fun _ => rfl, fun _ hx => by cases hx⟩
  | num lex =>
    rw [toJson] at h
    cases hs : serdeNumber lex with
    | none => rw [hs] at h; cases h
    | some n =>
      rw [hs] at h; simp only [Option.map_some, Option.some.injEq] at h; subst h
      cases s <;> exact ⟨fun _ => rfl, fun _ hx => by cases hx⟩
  | arr xs =>
    rw [toJson] at h
    cases hx : toJsonList xs with
    | none => rw [hx] at h; cases h
    | some vs =>
      rw [hx] at h; simp only [Option.map_some, Option.some.injEq] at h; subst h
      cases s with
      | field name => exact ⟨fun _ => rfl, fun _ hx => by cases hx⟩
      | index i => exact toJsonList_get xs vs hx i
  | obj ms =>
    rw [toJson] at h
    cases hx : toJsonMembers ms with
    | none => rw [hx] at h; cases h
    | some kvs =>
      rw [hx] at h; simp only [Option.map_some, Option.some.injEq] at h; subst h
      cases s with
      | index i => exact ⟨fun _ => rfl, fun _ hx => by cases hx⟩
      | field name =>
        have hl := toJsonMembers_last ms kvs hx name
        have hd := lookup_dedupe kvs [] name
        simp only [JsonAccess.step, Json.getField, LVal.step]
        rw [hd]
        constructor
        · intro hn; rw [hl.1 hn]; rfl
        · intro l' hl'
          obtain ⟨v, hv1, hv2⟩ := hl.2 l' hl'
          exact ⟨v, hv1, by rw [hv2]⟩

theorem follow_toJson : ∀ (steps : List JsonStep) (l : LVal) (j : Json), toJson l = some j →
    (followL steps l = none → followPath steps j = none) ∧
    (∀ l', followL steps l = some l' → ∃ j', toJson l' = some j' ∧ followPath steps j = some j')
  | [], l, j, h => ⟨fun hn => (by cases hn), fun l' hl' => (by cases hl'; exact ⟨j, h, rfl⟩)⟩
  | s :: rest, l, j, h => by
    have hs := step_toJson l j h s
    rw [followL, followPath]
    cases hl : l.step s with
    | none => rw [hs.1 hl]; exact ⟨fun _ => rfl, fun _ hx => by cases hx⟩
    | some l1 =>
      obtain ⟨j1, hj1, hst⟩ := hs.2 l1 hl
      rw [hst]
      exact follow_toJson rest l1 j1 hj1

/-- **the document has `v` at a path exactly when the text's tree has a sub-tree there whose document is `v`** -/
theorem followPath_iff_followL (steps : List JsonStep) (l : LVal) (j : Json) (h : toJson l = some j) (v : Json) :
    followPath steps j = some v ↔ ∃ l', followL steps l = some l' ∧ toJson l' = some v := by
  have hf := follow_toJson steps l j h
  constructor
  · intro hv
    cases hl : followL steps l with
    | none => rw [hf.1 hl] at hv; cases hv
    | some l' =>
      obtain ⟨j', hj', hp⟩ := hf.2 l' hl
      rw [hp] at hv; cases hv
      exact ⟨l', rfl, hj'⟩
  · rintro ⟨l', hl, hv⟩
    obtain ⟨j', hj', hp⟩ := hf.2 l' hl
    rw [hv] at hj'; cases hj'
    exact hp

/-- **a number found at a path is the reading of THE literal the path addresses in the text** -/
theorem followPath_num (steps : List JsonStep) (l : LVal) (j : Json) (h : toJson l = some j) (n : JNum) :
    followPath steps j = some (.num n) ↔ ∃ lex, followL steps l = some (.num lex) ∧ serdeNumber lex = some n := by
  rw [followPath_iff_followL steps l j h]
  constructor
  · rintro ⟨l', hl, hv⟩
    cases l' with
    | num lex =>
      rw [toJson] at hv
      cases hs : serdeNumber lex with
      | none => rw [hs] at hv; cases hv
      | some m => rw [hs] at hv; simp only [Option.map_some, Option.some.injEq, Json.num.injEq] at hv; subst hv; exact ⟨lex, hl, hs⟩
    | null => simp [toJson] at hv
    | bool b => simp [toJson] at hv
    | str s => simp [toJson] at hv
    | arr xs => rw [toJson] at hv; cases toJsonList xs <;> simp at hv
    | obj ms => rw [toJson] at hv; cases toJsonMembers ms <;> simp at hv
  · rintro ⟨lex, hl, hs⟩
    exact ⟨.num lex, hl, by rw [toJson, hs]; rfl⟩

/-! ### the literals of a sub-tree are literals of the tree -/

theorem lexemes_lastMember (name : List Nat) : ∀ (ms : List (List Char × LVal)) (x : LVal),
    lastMember name ms = some x → ∀ lex ∈ x.lexemes, lex ∈ LVal.lexemesMembers ms
  | [], x, h => by simp [lastMember] at h
  | (k, y) :: ms, x, h => by
    rw [lastMember] at h
    intro lex hlex
    rw [LVal.lexemesMembers]
    cases hl : lastMember name ms with
    | some z =>
      rw [hl] at h; cases h
      exact List.mem_append_right _ (lexemes_lastMember name ms x hl lex hlex)
    | none =>
      rw [hl] at h
      by_cases hk : Utf8.encode k = name
      · simp only [hk, if_true, Option.some.injEq] at h; subst h
        exact List.mem_append_left _ hlex
      · simp [hk] at h

theorem lexemes_getElem : ∀ (xs : List LVal) (i : Nat) (x : LVal), xs[i]? = some x →
    ∀ lex ∈ x.lexemes, lex ∈ LVal.lexemesList xs
  | [], i, x, h => by simp at h
  | y :: xs, 0, x, h => by
    simp only [List.getElem?_cons_zero, Option.some.injEq] at h; subst h
    intro lex hlex; rw [LVal.lexemesList]; exact List.mem_append_left _ hlex
  | y :: xs, i + 1, x, h => by
    simp only [List.getElem?_cons_succ] at h
    intro lex hlex; rw [LVal.lexemesList]
    exact List.mem_append_right _ (lexemes_getElem xs i x h lex hlex)

theorem lexemes_step (l l' : LVal) (s : JsonStep) (h : l.step s = some l') : ∀ lex ∈ l'.lexemes, lex ∈ l.lexemes := by
  cases l with
  | obj ms =>
    cases s with
    | field name => rw [LVal.lexemes]; exact lexemes_lastMember name ms l' h
    | index i => cases h
  | arr xs =>
    cases s with
    | field name => cases h
    | index i => rw [LVal.lexemes]; exact lexemes_getElem xs i l' h
  | null => cases s <;> cases h
  | bool b => cases s <;> cases h
  | str t => cases s <;> cases h
  | num lex => cases s <;> cases h

theorem lexemes_followL : ∀ (steps : List JsonStep) (l l' : LVal), followL steps l = some l' →
    ∀ lex ∈ l'.lexemes, lex ∈ l.lexemes
  | [], l, l', h => by cases h; exact fun _ hx => hx
  | s :: rest, l, l', h => by
    rw [followL] at h
    cases hs : l.step s with
    | none => rw [hs] at h; cases h
    | some l1 =>
      rw [hs] at h
      intro lex hlex
      exact lexemes_step l l1 s hs lex (lexemes_followL rest l1 l' h lex hlex)

/-- the literal a path addresses is one of the text's number literals -/
theorem followL_lexeme (steps : List JsonStep) (l : LVal) (lex : List Char) (h : followL steps l = some (.num lex)) :
    lex ∈ l.lexemes :=
  lexemes_followL steps l _ h lex (by simp [LVal.lexemes])

/-! ### the walk on the denotation -/

theorem lastMember_erase (name : List Nat) : ∀ ms : List (List Char × LVal),
    (lastMember name ms).map LVal.erase = lastMemberV name (LVal.eraseMembers ms)
  | [] => rfl
  | (k, x) :: ms => by
    rw [lastMember, LVal.eraseMembers, lastMemberV, ← lastMember_erase name ms]
    cases lastMember name ms with
    | some y => rfl
    | none =>
      simp only [Option.map_none]
      by_cases hk : Utf8.encode k = name
      · simp [hk]
      · simp [hk]

theorem getElem?_eraseList : ∀ (xs : List LVal) (i : Nat), (xs[i]?).map LVal.erase = (LVal.eraseList xs)[i]?
  | [], i => by simp [LVal.eraseList]
  | x :: xs, 0 => by simp [LVal.eraseList]
  | x :: xs, i + 1 => by simp only [LVal.eraseList, List.getElem?_cons_succ]; exact getElem?_eraseList xs i

theorem step_erase (l : LVal) (s : JsonStep) : (l.step s).map LVal.erase = stepV l.erase s := by
  cases l with
  | obj ms =>
    cases s with
    | field name => simp only [LVal.step, LVal.erase, stepV]; exact lastMember_erase name ms
    | index i => rfl
  | arr xs =>
    cases s with
    | field name => rfl
    | index i => simp only [LVal.step, LVal.erase, stepV]; exact getElem?_eraseList xs i
  | null => cases s <;> rfl
  | bool b => cases s <;> rfl
  | str t => cases s <;> rfl
  | num lex => cases s <;> rfl

/-- the walk commutes with forgetting the lexemes: it is a walk through the grammar's denotation of the text -/
theorem followL_erase : ∀ (steps : List JsonStep) (l : LVal), (followL steps l).map LVal.erase = followV steps l.erase
  | [], l => rfl
  | s :: rest, l => by
    rw [followL, followV, ← step_erase]
    cases l.step s with
    | none => rfl
    | some l1 => exact followL_erase rest l1

end Sqlgrep.JsonDoc
